#!/bin/bash
# tools/verify_seed.sh <worktree> : demo must exit 1 with the patch applied and 0 with it reverted
wt="$1"
cd "$wt" || exit 2
git diff -- pyanalyze > /tmp/cur.diff
if ! diff -q /tmp/cur.diff SEED/patch.diff >/dev/null; then echo "WARNING: worktree diff != SEED/patch.diff"; git status --short | head; fi
PYTHONPATH="$wt" timeout 900 /venv/bin/python SEED/demo.py > /tmp/demo_p.log 2>&1; p=$?
git apply -R SEED/patch.diff || { echo "cannot revert"; exit 2; }
PYTHONPATH="$wt" timeout 900 /venv/bin/python SEED/demo.py > /tmp/demo_c.log 2>&1; c=$?
git apply SEED/patch.diff
echo "$wt patched_exit=$p clean_exit=$c"
