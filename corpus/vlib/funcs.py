from typing import Any, Callable, Dict, List, Optional, Sequence, Tuple, TypeVar, Union, overload

from typing_extensions import Literal

T = TypeVar("T")
N = TypeVar("N", int, float)
S = TypeVar("S", bound=str)
H = TypeVar("H", bound="Comparable")


class Comparable:
    def __lt__(self, other: "Comparable") -> bool:
        return True


class Rank(Comparable):
    pass


@overload
def pick(x: int) -> int: ...
@overload
def pick(x: str) -> str: ...
@overload
def pick(x: bytes, flag: bool = ...) -> bytes: ...
def pick(x: object, flag: bool = False) -> object:
    return x


@overload
def conv(x: int, *, as_text: Literal[True]) -> str: ...
@overload
def conv(x: int, *, as_text: Literal[False] = ...) -> int: ...
@overload
def conv(x: str, *, as_text: bool = ...) -> str: ...
def conv(x: object, *, as_text: bool = False) -> object:
    return x


@overload
def first(xs: List[T]) -> T: ...
@overload
def first(xs: Tuple[T, ...]) -> T: ...
@overload
def first(xs: Dict[T, Any]) -> T: ...
def first(xs: Any) -> Any:
    for x in xs:
        return x


def identity(x: T) -> T:
    return x


def number(x: N, y: N) -> N:
    return x


def shout(x: S) -> S:
    return x


def biggest(xs: Sequence[H]) -> H:
    return xs[0]


def pair(x: T, y: T) -> Tuple[T, T]:
    return (x, y)


def apply(f: Callable[[T], T], x: T) -> T:
    return f(x)


def many(a: int, b: str = "", *, c: float = 0.0, d: Optional[bytes] = None) -> int:
    return a


def kwonly(*, alpha: int, beta: str, gamma: bool = False) -> None:
    pass


def posonly(a: int, b: str, /, c: float = 0.0) -> None:
    pass


def varargs(*args: int, **kwargs: str) -> int:
    return 0


def optional(x: Optional[int] = None) -> Union[int, str]:
    return 0


def returns_union(flag: bool) -> Union[int, str, None]:
    return None


def takes_literal(mode: Literal["r", "w", "a"]) -> None:
    pass


def takes_callable(f: Callable[[int, str], bool]) -> None:
    pass


def no_annotations(a, b=1, *c, **d):
    return a


def int_str_to_bool(a: int, b: str) -> bool:
    return True


def int_to_bool(a: int) -> bool:
    return True
