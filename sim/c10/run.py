"""C10 orchestrator: plan worlds from VERIF_SEED, execute them, compare every observation of a
program with its isolated reference, classify + minimise differences, write replay files and
evidence.  Exit 0 = property held on everything explored (known findings echoed), 1 = VIOLATION,
2 = HARNESS-ERROR."""
import collections
import concurrent.futures
import hashlib
import json
import os
import sys
import time
import traceback

from .. import findings as findings_mod
from .. import launch
from ..prng import Rng, derive
from ..shrink import ddmin
from . import oracle, workload

VERIF = launch.VERIF
PROP = "C10"


class Tier:
    def __init__(self, name):
        self.name = name
        q = name == "quick"
        self.n_generated = int(os.environ.get("VERIF_C10_GEN", 420 if q else 2400))
        self.n_hash = int(os.environ.get("VERIF_C10_HASH", 3 if q else 11))      # besides seed 0
        self.n_layout = int(os.environ.get("VERIF_C10_LAYOUT", 2 if q else 7))   # besides layout 0
        self.n_hist = int(os.environ.get("VERIF_C10_HIST", 28 if q else 420))
        self.hist_len = int(os.environ.get("VERIF_C10_HISTLEN", 420 if q else 700))
        self.n_files = int(os.environ.get("VERIF_C10_FILES", 6 if q else 60))
        self.files_len = 14 if q else 30
        self.n_selftest = 8 if q else 64
        self.n_fresh = 6 if q else 40
        self.max_minimise = int(os.environ.get("VERIF_C10_MAXMIN", 10 if q else 40))
        self.corpus_fraction = float(os.environ.get("VERIF_C10_CORPUS", 1.0))
        self.wall_budget = float(os.environ.get("VERIF_C10_WALL", 170 if q else 3000))


class Job:
    __slots__ = ("name", "kind", "hash", "layout", "ops", "meta")

    def __init__(self, name, kind, hash_seed, layout, ops, meta=None):
        self.name, self.kind, self.hash, self.layout, self.ops, self.meta = name, kind, hash_seed, layout, ops, meta or {}


def make_spec(programs, ops, layout, extra=None):
    used = {op["pid"] for op in ops if "pid" in op}
    for op in ops:
        used.update(op.get("pids", []))
    spec = {
        "programs": {p: programs[p] for p in sorted(used)},
        "extra_paths": [os.path.join(VERIF, "corpus")],
        "layout_seed": layout,
        "ops": ops,
    }
    if extra:
        spec.update(extra)
    return spec


class Runner:
    def __init__(self, tier, seed, workers):
        self.tier = tier
        self.seed = seed
        self.workers = workers
        self.t0 = time.time()
        self.pyc = None
        self.programs = {}
        self.family_of = {}
        self.stats = collections.Counter()
        self.fault_counts = collections.Counter()
        self.worlds_run = 0
        self.checks_run = 0
        self.digests = {}
        self.harness_errors = []
        self.samples = []
        self.scratch = None

    # ------------------------------------------------------------------ infrastructure
    def log(self, *a):
        print("[c10 %6.1fs]" % (time.time() - self.t0), *a, flush=True)

    def run_job(self, job):
        spec = make_spec(self.programs, job.ops, job.layout, job.meta.get("extra"))
        events, end = launch.run_world("c10", spec, job.hash, self.pyc.dir, timeout=job.meta.get("timeout", 900))
        return job, events, end

    def run_jobs(self, jobs):
        """Run jobs on the pool; returns {job.name: (job, events, end)}."""
        out = {}
        if not jobs:
            return out
        with concurrent.futures.ThreadPoolExecutor(max_workers=self.workers) as ex:
            futs = {ex.submit(self.run_job, j): j for j in jobs}
            for fut in concurrent.futures.as_completed(futs):
                j = futs[fut]
                try:
                    job, events, end = fut.result()
                except launch.HarnessError as e:
                    self.harness_errors.append("%s: %s" % (j.name, e))
                    continue
                out[j.name] = (job, events, end)
                self.worlds_run += 1
                self.checks_run += sum(1 for e in events if e.get("op") in ("check", "recheck"))
                for e in events:
                    if e.get("op") == "files" and isinstance(e.get("obs"), dict):
                        self.checks_run += len(e["obs"].get("files", {}))
                self.digests[j.name] = end["digest"]
        return out

    # ------------------------------------------------------------------ planning
    def build_programs(self):
        r = Rng(self.seed, "c10", "programs")
        corpus = workload.load_corpus()
        if self.tier.corpus_fraction < 1.0:
            corpus = [c for c in corpus if r.chance(self.tier.corpus_fraction)]
        enabled = sorted(workload.FAMILIES)
        gen, fam_of = workload.generate(self.seed, self.tier.n_generated, enabled)
        self.programs = dict(corpus)
        self.programs.update(gen)
        self.family_of = {pid: ["snippet:" + pid.split("::")[0]] for pid, _ in corpus}
        self.family_of.update(fam_of)
        self.order = [p for p, _ in corpus] + sorted(gen)
        self.stats["programs_corpus"] = len(corpus)
        self.stats["programs_generated"] = len(gen)

    def seeds_pool(self):
        r = Rng(self.seed, "c10", "seedpool")
        hashes = []
        while len(hashes) < self.tier.n_hash:
            h = 1 + r.below(4000)
            if h not in hashes:
                hashes.append(h)
        layouts = []
        while len(layouts) < self.tier.n_layout:
            layout = 1 + r.below(1 << 30)
            if layout not in layouts:
                layouts.append(layout)
        return hashes, layouts

    def iso_jobs(self, label, h, layout, pids=None, chunks=None):
        pids = list(pids if pids is not None else self.order)
        chunks = chunks or max(1, min(self.workers, len(pids) // 40 or 1))
        jobs = []
        for c in range(chunks):
            part = pids[c::chunks]
            if not part:
                continue
            ops = [{"op": "check", "pid": p, "isolate": True} for p in part]
            jobs.append(Job("%s/h%d/l%d/c%d" % (label, h, layout, c), "iso", h, layout, ops, {"pass": (h, layout)}))
        return jobs

    def hist_job(self, idx, hashes, layouts):
        r = Rng(self.seed, "c10", "hist", idx)
        # seeds: (h, 0) or (0, l) so that an isolated observation under the same seeds exists
        if r.chance(0.7) and hashes:
            h, layout = r.choice([0] + hashes), 0
        elif layouts:
            h, layout = 0, r.choice(layouts)
        else:
            h, layout = 0, 0
        n = min(len(self.order), max(20, int(self.tier.hist_len * (0.5 + r.random()))))
        mode = r.choice(["shuffle", "shuffle", "family", "family", "sorted", "reverse", "generated_only", "dense_family"])
        pool = list(self.order)
        if mode == "generated_only":
            pool = [p for p in pool if p.startswith("gen:")]
        elif mode == "dense_family":
            fams = sorted({f for p in pool for f in self.family_of[p]})
            chosen = set(r.sample(fams, min(len(fams), r.randint(1, 3))))
            pool = [p for p in pool if chosen & set(self.family_of[p])] or pool
        picked = r.sample(pool, min(n, len(pool)))
        if mode in ("family", "dense_family"):
            keyed = collections.defaultdict(list)
            for p in picked:
                keyed[self.family_of[p][0]].append(p)
            groups = list(keyed.values())
            r.shuffle(groups)
            picked = [p for g in groups for p in g]
        elif mode == "sorted":
            picked.sort()
        elif mode == "reverse":
            picked.sort(reverse=True)
        p_re = r.choice([0.0, 0.03, 0.1])
        p_gc = r.choice([0.0, 0.02, 0.08])
        p_junk = r.choice([0.0, 0.02, 0.05])
        ops = []
        if r.chance(0.15):
            ops.append({"op": "gc", "mode": "disable"})
        done = []
        for p in picked:
            ops.append({"op": "check", "pid": p})
            done.append(p)
            if r.chance(p_re):
                q = p if r.chance(0.5) else r.choice(done)
                ops.append({"op": "recheck", "pid": q})
            if r.chance(p_gc):
                ops.append({"op": "gc", "mode": "collect"})
            if r.chance(p_junk):
                ops.append({"op": "junk", "seed": 1 + r.below(1 << 30)})
        return Job("hist/%d" % idx, "hist", h, layout, ops, {"mode": mode, "pass": (h, layout)})

    def files_jobs(self, idx, hashes):
        r = Rng(self.seed, "c10", "files", idx)
        h = r.choice([0] + hashes) if hashes else 0
        pool = [p for p in self.order if oracle.file_route_ok(self.programs[p])]
        picked = r.sample(pool, min(self.tier.files_len, len(pool)))
        root = os.path.join(self.scratch, "files%d" % idx)
        jobs = []
        ops_each = [{"op": "files", "mode": "each", "pids": [p], "root": root + "e", "isolate": True} for p in picked]
        jobs.append(Job("files/%d/each" % idx, "files", h, 0, ops_each, {"mode": "each", "group": idx}))
        mode = r.choice(["all", "all", "n2"])
        order = list(picked)
        ops_all = [{"op": "files", "mode": mode, "pids": order, "root": root + "a", "isolate": True}]
        jobs.append(Job("files/%d/%s" % (idx, mode), "files", h, 0, ops_all, {"mode": mode, "group": idx}))
        return jobs

    # ------------------------------------------------------------------ main flow
    def run(self):
        tier = self.tier
        self.build_programs()
        hashes, layouts = self.seeds_pool()
        self.log("seed=%d tier=%s programs=%d (corpus %d, generated %d) hash_pool=%s layout_pool=%s workers=%d aslr_pinned=%s" % (
            self.seed, tier.name, len(self.order), self.stats["programs_corpus"], self.stats["programs_generated"],
            [0] + hashes, [0] + layouts, self.workers, bool(launch.aslr_prefix())))
        self.pyc = launch.PycCache("c10")
        self.scratch = os.path.join(self.pyc.dir, "scratch")
        os.makedirs(self.scratch, exist_ok=True)
        try:
            return self._run(hashes, layouts)
        finally:
            self.pyc.close()

    def _run(self, hashes, layouts):
        tier = self.tier
        # warm the private byte-code cache: one world that touches every route
        warm_pids = self.order[:3] + [p for p in self.order if p.startswith("gen:")][:40]
        file_ok = [p for p in warm_pids if oracle.file_route_ok(self.programs[p])][:2]
        warm_ops = [{"op": "check", "pid": p} for p in warm_pids]
        if file_ok:
            warm_ops.append({"op": "files", "mode": "all", "pids": file_ok, "root": os.path.join(self.scratch, "warm"), "isolate": False})
        try:
            launch.run_world("c10", make_spec(self.programs, warm_ops, 0), 0, self.pyc.dir, write_bytecode=True)
        except launch.HarnessError as e:
            self.harness_errors.append("warm-up: %s" % e)
            return self.finish([], [])
        self.log("byte-code cache warm")

        # 1. isolated passes: reference (0,0), hash worlds (h,0), layout worlds (0,l)
        jobs = self.iso_jobs("iso", 0, 0)
        for h in hashes:
            jobs += self.iso_jobs("iso", h, 0)
        for layout in layouts:
            jobs += self.iso_jobs("iso", 0, layout)
        res = self.run_jobs(jobs)
        iso = collections.defaultdict(dict)  # (h,l) -> pid -> obs
        for name, (job, events, end) in res.items():
            for e in events:
                if e.get("op") == "check":
                    iso[job.meta["pass"]][e["pid"]] = e["obs"]
        self.fault_counts["hash_seed_change"] += len(hashes)
        self.fault_counts["heap_layout_shift"] += len(layouts)
        self.log("isolated passes done: %d worlds" % len(res))
        if self.harness_errors:
            return self.finish([], [])

        ref = iso[(0, 0)]
        usable = set()
        for pid in self.order:
            o = ref.get(pid)
            if o is None or "diags" not in o:
                self.stats["programs_dropped_reference_unusable"] += 1
                continue
            usable.add(pid)
        self.usable = usable
        self.ref = ref
        self.iso = iso
        leads = []
        for (h, layout), table in iso.items():
            if (h, layout) == (0, 0):
                continue
            mech = "hash" if layout == 0 else "layout"
            for pid, o in table.items():
                if pid not in usable:
                    continue
                d = oracle.compare(ref[pid], o)
                if d:
                    leads.append({"pid": pid, "mechanism": mech, "hash": h, "layout": layout, "diff": d, "world": "iso"})

        # 2. history worlds and file-route worlds
        jobs = [self.hist_job(i, hashes, layouts) for i in range(tier.n_hist)]
        for j in jobs:
            j.ops = [op for op in j.ops if op.get("pid") is None or op["pid"] in usable]
        fjobs = []
        for i in range(tier.n_files):
            fjobs += self.files_jobs(i, hashes)
        res2 = self.run_jobs(jobs + fjobs)
        self.log("history + file-route worlds done: %d worlds" % len(res2))
        pair_cov = set()
        state_keys = set()
        for name, (job, events, end) in sorted(res2.items()):
            if job.kind == "hist":
                base = iso[job.meta["pass"]]
                seen_before = []
                prefix = hashlib.sha256()
                for e in events:
                    op = e.get("op")
                    if op == "gc":
                        self.fault_counts["gc_point"] += 1
                    elif op == "junk":
                        self.fault_counts["heap_junk_between_ops"] += 1
                    if op not in ("check", "recheck"):
                        continue
                    pid = e["pid"]
                    if op == "recheck":
                        self.fault_counts["same_process_recheck"] += 1
                    else:
                        self.fault_counts["history_prefix_len_%s" % oracle.bucket(len(seen_before))] += 1
                        fam = self.family_of[pid][0]
                        for q in seen_before[-60:]:
                            if self.family_of[q][0] == fam and q != pid:
                                pair_cov.add((q, pid))
                    inv = e.get("inv") or {}
                    if inv.get("assumed") or inv.get("exclude_any") or inv.get("any_match"):
                        self.stats["invariant_leads"] += 1
                    state_keys.add((pid, job.hash, job.layout, prefix.hexdigest()[:16]))
                    expect = base.get(pid)
                    if expect is not None and "diags" in expect:
                        d = oracle.compare(expect, e["obs"])
                        if d:
                            leads.append({"pid": pid, "mechanism": "history", "hash": job.hash, "layout": job.layout, "diff": d,
                                          "world": name, "index": e["i"], "recheck": op == "recheck"})
                    if op == "check":
                        seen_before.append(pid)
                        prefix.update(pid.encode())
            elif job.kind == "files":
                self.fault_counts["file_route_%s" % job.meta["mode"]] += 1
        # file route: compare all/n2 against each, same group
        groups = collections.defaultdict(dict)
        for name, (job, events, end) in res2.items():
            if job.kind == "files":
                merged = {}
                for e in events:
                    if e.get("op") == "files" and isinstance(e.get("obs"), dict):
                        if "files" not in e["obs"]:
                            self.stats["file_route_op_failed"] += 1
                            continue
                        for pid, o in e["obs"]["files"].items():
                            merged[pid] = o
                groups[job.meta["group"]][job.meta["mode"]] = (job, merged)
        for g, modes in sorted(groups.items()):
            if "each" not in modes:
                continue
            _, each = modes["each"]
            for mode, (job, merged) in modes.items():
                if mode == "each":
                    continue
                for pid, o in merged.items():
                    if pid == "<other>":
                        continue
                    if pid in each:
                        d = oracle.compare(each[pid], o)
                        if d:
                            leads.append({"pid": pid, "mechanism": "file_history", "hash": job.hash, "layout": 0, "diff": d,
                                          "world": job.name, "each_world": "files/%d/each" % g})
        self.stats["ordered_family_pairs_covered"] = len(pair_cov)
        self.stats["distinct_states"] = len(state_keys) + sum(len(t) for t in iso.values())
        self.res2 = res2

        # 3. determinism self-test: re-run a sample of worlds, digests must be identical
        self.selftest(list(res.values()) + list(res2.values()))
        if self.harness_errors:
            return self.finish([], [])

        # 4. triage leads -> violations
        violations, known = self.triage(leads)
        return self.finish(violations, known)

    # ------------------------------------------------------------------ self tests
    def selftest(self, done):
        r = Rng(self.seed, "c10", "selftest")
        sample = r.sample(sorted(done, key=lambda t: t[0].name), min(self.tier.n_selftest, len(done)))
        jobs = [t[0] for t in sample]
        # different worker count on purpose
        saved = self.workers
        self.workers = max(2, saved // 2 + 1)
        before = dict(self.digests)
        res = self.run_jobs(jobs)
        self.workers = saved
        bad = 0
        for name, (job, events, end) in res.items():
            if before.get(name) != end["digest"]:
                bad += 1
                self.harness_errors.append("non-deterministic world %s: digest %s vs %s" % (name, before.get(name), end["digest"]))
        self.stats["selftest_worlds_rerun"] = len(res)
        self.stats["selftest_digest_mismatches"] = bad
        self.log("determinism self-test: %d worlds re-run with %d workers, %d mismatches" % (len(res), max(2, saved // 2 + 1), bad))

    # ------------------------------------------------------------------ triage
    def triage(self, leads):
        known_entries = findings_mod.load(PROP)
        groups = collections.OrderedDict()
        for lead in leads:
            key = (lead["pid"], lead["mechanism"], lead["diff"]["level"], json.dumps(lead["diff"]["where"][:3]))
            groups.setdefault(key, []).append(lead)
        self.stats["leads"] = len(leads)
        if os.environ.get("VERIF_DUMP_LEADS"):
            with open(os.environ["VERIF_DUMP_LEADS"], "w") as f:
                json.dump(leads, f, indent=1)
            return [], []
        self.stats["lead_groups"] = len(groups)
        # a history-kind group whose program already differs in isolation under the same level is
        # explained by the seed, not the history (cannot happen by construction: history worlds are
        # compared with the isolated pass of the same seeds) - kept as a sanity counter
        violations, known = [], []
        minimised = 0
        for key, group in groups.items():
            lead = group[0]
            v = {"property": PROP, "pid": lead["pid"], "mechanism": lead["mechanism"], "level": lead["diff"]["level"],
                 "where": lead["diff"]["where"], "occurrences": len(group), "hash": lead["hash"], "layout": lead["layout"]}
            if v["level"] == "revealed":
                # seen only through the annotation channel: must be confirmed through real diagnostics
                conf = self.confirm_revealed(lead)
                if conf is None:
                    self.stats["annotation_leads_unconfirmed"] += 1
                    continue
                self.stats["annotation_leads_confirmed"] += 1
                v.update(conf)
            entry = findings_mod.find(known_entries, v)
            if entry is not None:
                known.append((entry, v))
                continue
            if minimised < self.tier.max_minimise and time.time() - self.t0 < self.tier.wall_budget:
                try:
                    self.minimise(lead, v)
                    minimised += 1
                except launch.HarnessError as e:
                    self.harness_errors.append("minimise: %s" % e)
            else:
                self.build_unminimised(lead, v)
            if v.get("not_reproduced"):
                self.harness_errors.append("lead for %s did not reproduce in a fresh world (non-determinism?)" % v["pid"])
                continue
            # minimisation may have produced a smaller/different program: check the list again
            entry = findings_mod.find(known_entries, v)
            if entry is not None:
                known.append((entry, v))
                continue
            violations.append(v)
        return violations, known

    # -- world construction for a lead ------------------------------------------------
    def lead_worlds(self, lead, program=None, history=None):
        """(spec_a, hash_a, spec_b, hash_b): a = the isolated baseline, b = the perturbed world."""
        pid = lead["pid"]
        programs = dict(self.programs)
        if program is not None:
            programs[pid] = program
        mech = lead["mechanism"]
        if mech in ("hash", "layout"):
            ops = [{"op": "check", "pid": pid, "isolate": True}]
            a = (make_spec(programs, ops, 0), 0)
            b = (make_spec(programs, ops, lead["layout"]), lead["hash"])
        elif mech == "history":
            if history is None:
                job = self.res2[lead["world"]][0]
                history = [op for op in job.ops[: lead["index"]]]
                final = dict(job.ops[lead["index"]])
            else:
                final = lead["final_op"]
            lead["final_op"] = final
            a = (make_spec(programs, [{"op": "check", "pid": pid, "isolate": True}], lead["layout"]), lead["hash"])
            b = (make_spec(programs, list(history) + [final], lead["layout"]), lead["hash"])
            lead["history"] = history
        elif mech == "file_history":
            job = self.res2[lead["world"]][0]
            op = dict(job.ops[0])
            if history is not None:
                op["pids"] = list(history) + [pid]
            else:
                history = [p for p in op["pids"] if p != pid]
                # keep the original order
                op["pids"] = list(job.ops[0]["pids"])
            lead["history"] = history
            root = os.path.join(self.scratch, "lead")
            opa = {"op": "files", "mode": "each", "pids": [pid], "root": root + "a", "isolate": True}
            op["root"] = root + "b"
            a = (make_spec(programs, [opa], 0), lead["hash"])
            b = (make_spec(programs, [op], 0), lead["hash"])
        else:
            raise ValueError(mech)
        return a[0], a[1], b[0], b[1]

    def observe_pair(self, worlds_list):
        """Run [(spec_a, ha, spec_b, hb, pid)] in parallel; returns list of (obs_a, obs_b)."""
        jobs = []
        for k, (sa, ha, sb, hb, pid) in enumerate(worlds_list):
            jobs.append((k, "a", sa, ha))
            jobs.append((k, "b", sb, hb))
        results = {}

        def one(item):
            k, side, spec, h = item
            events, end = launch.run_world("c10", spec, h, self.pyc.dir, timeout=600)
            return k, side, events

        with concurrent.futures.ThreadPoolExecutor(max_workers=self.workers) as ex:
            for k, side, events in ex.map(one, jobs):
                results[(k, side)] = events
                self.worlds_run += 1
        out = []
        for k, (sa, ha, sb, hb, pid) in enumerate(worlds_list):
            out.append((oracle.target_obs(results[(k, "a")], pid), oracle.target_obs(results[(k, "b")], pid)))
        return out

    def still_differs(self, lead, level, candidates):
        """candidates: list of dict(program=..., history=...) -> list of bool."""
        wl = []
        for c in candidates:
            sa, ha, sb, hb = self.lead_worlds(dict(lead), c.get("program"), c.get("history"))
            wl.append((sa, ha, sb, hb, lead["pid"]))
        res = []
        for oa, ob in self.observe_pair(wl):
            if oa is None or ob is None or "diags" not in oa or "diags" not in ob:
                res.append(False)
                continue
            d = oracle.compare(oa, ob)
            res.append(bool(d) and oracle.LEVELS.index(d["level"]) <= oracle.LEVELS.index(level))
        return res

    def confirm_revealed(self, lead):
        """Rewrite the program so that the differing Name is wrapped in a real reveal_type() and
        re-run both worlds; a violation only if real diagnostics differ."""
        pid = lead["pid"]
        code = self.programs[pid]
        for (line, col, name) in [tuple(w[:3]) for w in lead["diff"]["where"][:4]]:
            new = oracle.wrap_reveal(code, line, col, name)
            if new is None:
                continue
            try:
                sa, ha, sb, hb = self.lead_worlds(dict(lead), new)
                (oa, ob), = self.observe_pair([(sa, ha, sb, hb, pid)])
            except launch.HarnessError as e:
                self.harness_errors.append("confirm: %s" % e)
                return None
            if oa is None or ob is None or "diags" not in oa or "diags" not in ob:
                continue
            d = oracle.compare(oa, ob, use_ann=False)
            if d:
                lead["program_override"] = new
                lead["diff"] = d
                return {"level": d["level"], "where": d["where"], "confirmed_via": "reveal_type(%s) at line %d" % (name, line)}
        return None

    def minimise(self, lead, v):
        pid = lead["pid"]
        program = lead.get("program_override") or self.programs[pid]
        level = v["level"]
        history = None
        first = self.still_differs(lead, level, [{"program": program}])
        if not first[0]:
            v["not_reproduced"] = True
            return
        if lead["mechanism"] == "history":
            self.lead_worlds(lead, program)  # fills lead["history"], lead["final_op"]
            hist0 = lead["history"]
            history = ddmin(hist0, lambda cands: self.still_differs(lead, level, [{"program": program, "history": c} for c in cands]))
            lead["history"] = history
        elif lead["mechanism"] == "file_history":
            self.lead_worlds(lead, program)
            hist0 = lead["history"]
            history = ddmin(hist0, lambda cands: self.still_differs(lead, level, [{"program": program, "history": c} for c in cands]))
            lead["history"] = history
        # shrink the program: drop top-level blocks, then statements
        units = oracle.split_units(program)
        if len(units) > 1:
            def test_units(cands):
                progs = [oracle.join_units(c) for c in cands]
                ok = [p is not None for p in progs]
                live = [{"program": p, "history": history} for p in progs if p is not None]
                got = iter(self.still_differs(lead, level, live)) if live else iter(())
                return [next(got) if o else False for o in ok]
            units = ddmin(units, test_units)
            smaller = oracle.join_units(units)
            if smaller is not None:
                program = smaller
        self.write_replay(lead, v, program, history, minimised=True)

    def build_unminimised(self, lead, v):
        program = lead.get("program_override") or self.programs[lead["pid"]]
        if lead["mechanism"] in ("history", "file_history"):
            self.lead_worlds(lead, program)
        self.write_replay(lead, v, program, lead.get("history"), minimised=False)

    def write_replay(self, lead, v, program, history, minimised):
        sa, ha, sb, hb = self.lead_worlds(dict(lead), program, history)
        (oa, ob), = self.observe_pair([(sa, ha, sb, hb, lead["pid"])])
        d = oracle.compare(oa or {}, ob or {}) if oa and ob and "diags" in oa and "diags" in ob else None
        if not d:
            v["not_reproduced"] = True
            return
        v["level"] = d["level"]
        v["where"] = d["where"]
        v["program"] = program
        v["history_len"] = len(history) if history is not None else 0
        # scrub scratch roots so that replay is location independent
        rep = {
            "property": PROP, "seed": self.seed, "tier": self.tier.name, "pid": lead["pid"], "mechanism": lead["mechanism"],
            "level": d["level"], "where": d["where"], "minimised": minimised,
            "worlds": [{"label": "baseline (isolated)", "hash": ha, "spec": sa}, {"label": "perturbed", "hash": hb, "spec": sb}],
            "observed": {"baseline": oracle.brief(oa), "perturbed": oracle.brief(ob)},
            "detail": d.get("detail"),
        }
        os.makedirs(os.path.join(VERIF, "replays"), exist_ok=True)
        tag = hashlib.sha256(json.dumps([lead["pid"], lead["mechanism"], d["level"], d["where"]], sort_keys=True).encode()).hexdigest()[:10]
        path = os.path.join(VERIF, "replays", "C10-%d-%s.json" % (self.seed, tag))
        with open(path, "w") as f:
            json.dump(rep, f, indent=1, sort_keys=True)
        v["replay"] = path

    # ------------------------------------------------------------------ reporting
    def finish(self, violations, known):
        wall = time.time() - self.t0
        for entry, v in known:
            print("KNOWN-FINDING: property=%s %s [%s]" % (PROP, entry.get("what", entry.get("id")), entry.get("id")), flush=True)
        seen_known = set()
        nontrivial = set()
        for pid in getattr(self, "usable", ()):
            if oracle.nontrivial(self.ref[pid]):
                nontrivial.add(pid)
        samples = []
        for pid in sorted(nontrivial)[:2] + sorted(p for p in nontrivial if p.startswith("gen:"))[:2]:
            samples.append({"program": pid, "source": self.programs[pid][:1500], "reference_observation": oracle.brief(self.ref[pid])})
        if getattr(self, "res2", None):
            for name in sorted(self.res2)[:2]:
                job = self.res2[name][0]
                samples.append({"world": name, "hash_seed": job.hash, "layout_seed": job.layout, "mode": job.meta.get("mode"),
                                "first_ops": job.ops[:12], "ops": len(job.ops), "digest": self.digests.get(name)})
        evidence = {
            "property_id": PROP, "tier": self.tier.name, "seed": self.seed, "level": "exploration",
            "wall_s": round(wall, 2), "violations": len(violations),
            "coverage": {
                "evaluations": int(self.checks_run),
                "distinct_nontrivial": len(nontrivial),
                "rule": "evaluation = one check of one program by real pyanalyze in one world (hash seed x heap layout x history prefix x route); "
                        "distinct_nontrivial = distinct programs whose reference observation carries an order-bearing construct "
                        "(a union ' | ', a multi-member Literal[...], a quoted name list) or >= 2 diagnostics",
                "samples": samples,
                "worlds": self.worlds_run,
                "worlds_per_hour": round(self.worlds_run / wall * 3600) if wall else 0,
                "program_checks_per_hour": round(self.checks_run / wall * 3600) if wall else 0,
                "programs": dict(self.stats),
                "perturbations_fired": dict(self.fault_counts),
                "fault_kinds_not_present_in_system": ["message loss/duplication/reordering", "partitions", "clock skew", "timers",
                                                      "disk write faults (C10 reads sources only)", "thread interleavings"],
                "simulated_time": "not applicable: pyanalyze has no timers; the simulated clock only pins the one log line that reads it",
                "distinct_states_measure": "distinct (program, hash seed, layout seed, history-prefix digest) observations",
                "distinct_states": int(self.stats.get("distinct_states", 0)),
                "ordered_family_pairs_covered": int(self.stats.get("ordered_family_pairs_covered", 0)),
                "determinism_selftest": {"worlds_rerun": int(self.stats.get("selftest_worlds_rerun", 0)),
                                         "digest_mismatches": int(self.stats.get("selftest_digest_mismatches", 0))},
                "aslr_pinned": bool(launch.aslr_prefix()),
                "real_code": ["pyanalyze (all of it, from the working tree)", "qcore, asynq, typeshed_client, ast_decompiler, tomli",
                              "CPython hashing, allocator, import system", "file system under the scratch tree (file route)"],
                "stubbed": ["wall clock (simulated, reset per operation)", "secrets.token_hex (pure function of program id)",
                            "process start on the fast path (fork instead of exec)"],
                "known_findings_echoed": len(known),
                "harness_errors": self.harness_errors[:10],
            },
            "assumptions": [
                "sampling, not enumeration: a clean batch is evidence, not proof",
                "histories consist of programs unrelated in the sense of DESIGN.md section 3",
                "layout dependence is explored only as far as seeded heap shifts move small-set iteration order",
            ],
        }
        os.makedirs(os.path.join(VERIF, "evidence"), exist_ok=True)
        with open(os.path.join(VERIF, "evidence", "C10.json"), "w") as f:
            json.dump(evidence, f, indent=1, sort_keys=True)
        self.log("worlds=%d checks=%d leads=%d groups=%d violations=%d known=%d wall=%.1fs" % (
            self.worlds_run, self.checks_run, self.stats.get("leads", 0), self.stats.get("lead_groups", 0), len(violations), len(known), wall))
        if self.harness_errors:
            for e in self.harness_errors[:20]:
                print("HARNESS-ERROR %s" % e, flush=True)
            return 2
        for v in violations:
            print("  violation: pid=%s mechanism=%s level=%s where=%s history_len=%s" % (
                v["pid"], v["mechanism"], v["level"], json.dumps(v["where"][:3]), v.get("history_len")), flush=True)
            print("VIOLATION property=%s replay=%s" % (PROP, v.get("replay")), flush=True)
        return 1 if violations else 0


def replay(path):
    with open(path) as f:
        rep = json.load(f)
    pyc = launch.PycCache("c10r")
    try:
        specs = rep["worlds"]
        root = os.path.join(pyc.dir, "scratch")
        os.makedirs(root, exist_ok=True)
        for w in specs:
            for op in w["spec"]["ops"]:
                if "root" in op:
                    op["root"] = os.path.join(root, os.path.basename(op["root"]))
        launch.run_world("c10", specs[0]["spec"], 0, pyc.dir, write_bytecode=True)
        obs = []
        for w in specs:
            events, end = launch.run_world("c10", w["spec"], w["hash"], pyc.dir)
            obs.append(oracle.target_obs(events, rep["pid"]))
            print("world %-22s hash=%s digest=%s" % (w["label"], w["hash"], end["digest"]))
        d = oracle.compare(obs[0] or {}, obs[1] or {}) if obs[0] and obs[1] and "diags" in obs[0] and "diags" in obs[1] else None
        if d:
            print("reproduced: level=%s where=%s" % (d["level"], json.dumps(d["where"][:4])))
            print(d.get("detail", ""))
            print("VIOLATION property=%s replay=%s" % (PROP, path))
            return 1
        print("not reproduced: both worlds agree on %s" % rep["pid"])
        return 0
    finally:
        pyc.close()


def main(argv):
    if len(argv) >= 2 and argv[0] == "--replay":
        return replay(argv[1])
    tier = Tier(argv[0] if argv else os.environ.get("VERIF_TIER", "quick"))
    seed = int(os.environ.get("VERIF_SEED", "0"))
    workers = int(os.environ.get("VERIF_WORKERS", str(os.cpu_count() or 4)))
    print("VERIF_SEED=%d" % seed, flush=True)
    try:
        return Runner(tier, seed, workers).run()
    except launch.HarnessError as e:
        print("HARNESS-ERROR %s" % e, flush=True)
        return 2
    except Exception:
        print("HARNESS-ERROR unexpected: %s" % traceback.format_exc(), flush=True)
        return 2


if __name__ == "__main__":
    sys.exit(main(sys.argv[1:]))
