"""Launching worlds: scrubbed environment, pinned hash seed, ASLR off, private byte-code cache."""
import json
import os
import shutil
import subprocess
import sys
import tempfile

VERIF = os.path.dirname(os.path.dirname(os.path.abspath(__file__)))
PYTHON = os.environ.get("VERIF_PYTHON", "/venv/bin/python")
WORLD_MAIN = os.path.join(VERIF, "sim", "world_main.py")
REPO = os.environ.get("VERIF_REPO", "/repo")
# evidence and replay files of a run against anything but /repo (sensitivity runs against a mutated
# scratch copy) never land in /verif: the committed evidence always describes /repo itself
OUT = VERIF if os.path.realpath(REPO) == "/repo" else (os.environ.get("VERIF_OUT") or os.path.join(os.path.dirname(os.path.realpath(REPO)), "verif-out"))


class HarnessError(Exception):
    pass


def scratch_base():
    for base in ("/dev/shm", tempfile.gettempdir()):
        if os.path.isdir(base) and os.access(base, os.W_OK):
            return base
    return tempfile.gettempdir()


_ASLR = None


def aslr_prefix():
    """['setarch', '-R'] when the sandbox allows it, else [] (reported in evidence)."""
    global _ASLR
    if _ASLR is None:
        try:
            ok = subprocess.run(["setarch", "-R", "true"], capture_output=True, timeout=20).returncode == 0
        except Exception:
            ok = False
        _ASLR = ["setarch", "-R"] if ok else []
    return _ASLR


def world_cmd(kind, hash_seed, pycache, write_bytecode=False):
    env = [
        "env", "-i", "PATH=/usr/bin:/bin", "HOME=/nonexistent", "LANG=C.UTF-8",
        "PYTHONHASHSEED=%d" % hash_seed,
        "PYTHONPYCACHEPREFIX=%s" % pycache,
        "PYTHONNOUSERSITE=1",
    ]
    if not write_bytecode:
        env.append("PYTHONDONTWRITEBYTECODE=1")
    if os.environ.get("VERIF_WORLD_DEBUG"):
        env.append("VERIF_WORLD_DEBUG=1")
    return env + aslr_prefix() + [PYTHON, WORLD_MAIN, kind]


def run_world(kind, spec, hash_seed, pycache, timeout=900, write_bytecode=False):
    """Execute one world to completion.  Returns (events, end_record).  Raises HarnessError
    on timeout, crash or truncated log (never silently passes)."""
    spec = dict(spec)
    spec.setdefault("repo", REPO)
    spec.setdefault("world_timeout", timeout)
    cmd = world_cmd(kind, hash_seed, pycache, write_bytecode)
    proc = subprocess.Popen(cmd, stdin=subprocess.PIPE, stdout=subprocess.PIPE, stderr=subprocess.PIPE,
                            cwd="/", start_new_session=True)
    try:
        stdout, stderr = proc.communicate(json.dumps(spec).encode(), timeout=timeout + 30)
    except subprocess.TimeoutExpired:
        _kill_group(proc)
        raise HarnessError("world timed out after %ss (kind=%s hash=%s)" % (timeout, kind, hash_seed))
    finally:
        _kill_group(proc)

    class p:  # noqa: N801
        returncode = proc.returncode

    p.stdout, p.stderr = stdout, stderr
    lines = p.stdout.decode("utf-8", "replace").splitlines()
    events = []
    end = None
    for line in lines:
        try:
            rec = json.loads(line)
        except Exception:
            raise HarnessError("unparsable world output: %r" % line[:200])
        if rec.get("end"):
            end = rec
        else:
            events.append(rec)
    if end is None:
        last = events[-1] if events else {}
        raise HarnessError("world died without end record rc=%s after %d events (last: i=%s op=%s pid=%s) stderr=%s" % (
            p.returncode, len(events), last.get("i"), last.get("op"), last.get("pid"), p.stderr.decode("utf-8", "replace")[-2000:]))
    for rec in events:
        if "fatal" in rec:
            raise HarnessError("world fatal: %s" % rec["fatal"])
    return events, end


def _kill_group(proc):
    import signal

    try:
        os.killpg(proc.pid, signal.SIGKILL)
    except (ProcessLookupError, PermissionError):
        pass
    try:
        proc.wait(timeout=10)
    except Exception:
        pass


class PycCache:
    """Run-private byte-code cache, filled by one warm-up world with writes enabled; compared
    worlds never write byte-code (a changed pyc state shifts every address once)."""

    def __init__(self, tag="c10"):
        self.dir = tempfile.mkdtemp(prefix="verif-pyc-%s-" % tag, dir=scratch_base())

    def warm(self, kind, spec, hash_seed=0):
        # two passes: the first compiles, the second must find everything cached
        run_world(kind, spec, hash_seed, self.dir, write_bytecode=True)
        return self

    def close(self):
        shutil.rmtree(self.dir, ignore_errors=True)


def repo_provenance():
    """Which tree the worlds imported pyanalyze from (recorded in the evidence)."""
    def git(*a):
        try:
            return subprocess.run(["git", "-C", REPO, *a], capture_output=True, text=True, timeout=60).stdout.strip()
        except Exception:
            return "?"
    return {"path": os.path.realpath(REPO), "head": git("rev-parse", "HEAD"), "working_tree_changes": len([l for l in git("status", "--porcelain", "--untracked-files=no").splitlines() if l.strip()])}
