from typing import Generic, Iterator, Protocol, TypeVar, runtime_checkable

T = TypeVar("T")
T_co = TypeVar("T_co", covariant=True)
K = TypeVar("K")
V = TypeVar("V")


class HasGet(Protocol[T_co]):
    def get(self) -> T_co: ...


class HasPut(Protocol[T]):
    def put(self, item: T) -> None: ...


class Box(Protocol[T]):
    def get(self) -> T: ...

    def put(self, item: T) -> None: ...

    def size(self) -> int: ...


class Pair(Protocol[K, V]):
    def key(self) -> K: ...

    def value(self) -> V: ...


class Named(Protocol):
    name: str


class Sized3(Protocol):
    def alpha(self) -> int: ...

    def beta(self) -> str: ...

    def gamma(self) -> bytes: ...


class Sized5(Protocol):
    def a1(self) -> int: ...

    def b2(self) -> int: ...

    def c3(self) -> int: ...

    def d4(self) -> int: ...

    def e5(self) -> int: ...


@runtime_checkable
class Closeable(Protocol):
    def close(self) -> None: ...


# mutually recursive protocols: P needs q() -> Q and extra(); Q needs p() -> P
class RecP(Protocol):
    def q(self) -> "RecQ": ...

    def extra(self) -> int: ...


class RecQ(Protocol):
    def p(self) -> "RecP": ...


class RecA(Protocol):
    def b(self) -> "RecB": ...

    def tag(self) -> str: ...


class RecB(Protocol):
    def a(self) -> "RecA": ...

    def num(self) -> int: ...


class Node(Protocol):
    def children(self) -> "list[Node]": ...

    def label(self) -> str: ...


class SupportsIter(Protocol[T_co]):
    def __iter__(self) -> Iterator[T_co]: ...


# implementations
class IntGetter:
    def get(self) -> int:
        return 1


class StrGetter:
    def get(self) -> str:
        return "x"


class BytesGetter:
    def get(self) -> bytes:
        return b"x"


class BoolGetter:
    def get(self) -> bool:
        return True


class FloatGetter:
    def get(self) -> float:
        return 1.0


class NoneGetter:
    def get(self) -> None:
        return None


class IntBox:
    def get(self) -> int:
        return 1

    def put(self, item: int) -> None:
        pass

    def size(self) -> int:
        return 0


class StrBox:
    def get(self) -> str:
        return ""

    def put(self, item: str) -> None:
        pass

    def size(self) -> int:
        return 0


class HalfBox:
    def get(self) -> int:
        return 1


class IntStrPair:
    def key(self) -> int:
        return 0

    def value(self) -> str:
        return ""


class StrIntPair:
    def key(self) -> str:
        return ""

    def value(self) -> int:
        return 0


class GenericGetter(Generic[T]):
    def __init__(self, item: T) -> None:
        self.item = item

    def get(self) -> T:
        return self.item


class WithName:
    name: str = "n"


class WithIntName:
    name: int = 0


class Has3:
    def alpha(self) -> int:
        return 0

    def beta(self) -> str:
        return ""

    def gamma(self) -> bytes:
        return b""


class Has2:
    def alpha(self) -> int:
        return 0

    def beta(self) -> str:
        return ""


class Has1:
    def gamma(self) -> bytes:
        return b""


class Has0:
    pass


class Has5:
    def a1(self) -> int:
        return 0

    def b2(self) -> int:
        return 0

    def c3(self) -> int:
        return 0

    def d4(self) -> int:
        return 0

    def e5(self) -> int:
        return 0


class Has5Missing2:
    def a1(self) -> int:
        return 0

    def c3(self) -> int:
        return 0

    def e5(self) -> int:
        return 0


class File:
    def close(self) -> None:
        pass


# X has q and p but lacks extra: not a RecP; is it a RecQ? only if X is a RecP ... it is not.
class RecX:
    def q(self) -> "RecX":
        return self

    def p(self) -> "RecX":
        return self


class RecFull:
    def q(self) -> "RecFull":
        return self

    def p(self) -> "RecFull":
        return self

    def extra(self) -> int:
        return 0


class RecAB:
    def a(self) -> "RecAB":
        return self

    def b(self) -> "RecAB":
        return self

    def tag(self) -> str:
        return ""

    def num(self) -> int:
        return 0


class RecABNoNum:
    def a(self) -> "RecABNoNum":
        return self

    def b(self) -> "RecABNoNum":
        return self

    def tag(self) -> str:
        return ""


class RecABNoTag:
    def a(self) -> "RecABNoTag":
        return self

    def b(self) -> "RecABNoTag":
        return self

    def num(self) -> int:
        return 0


class Tree:
    def children(self) -> "list[Tree]":
        return []

    def label(self) -> str:
        return ""


class BadTree:
    def children(self) -> "list[BadTree]":
        return []

    def label(self) -> int:
        return 0
