#!/bin/bash
# tools/seed_sweep.sh <prop> <seed>...   : quick check on /repo for several seeds; prints one line per seed
prop="$1"; shift
cd "$(dirname "$0")/.."
for sd in "$@"; do
  out=$(VERIF_SEED=$sd timeout 2400 ./check "$prop" quick 2>&1); rc=$?
  echo "$prop seed=$sd exit=$rc $(echo "$out" | grep -E '^\[c1[06].*(violations|distinct)=' | tail -1 | cut -c1-160)"
  echo "$out" | grep -E "^  violation|^HARNESS" | cut -c1-400
done
