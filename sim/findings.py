"""KNOWN_FINDINGS.json: genuine defects recorded rather than repaired (suppress the matching
violation, echoed as KNOWN-FINDING) and `fixed` entries (suppress nothing).  Never written at
run time."""
import json
import os

VERIF = os.path.dirname(os.path.dirname(os.path.abspath(__file__)))
PATH = os.path.join(VERIF, "KNOWN_FINDINGS.json")


def load(prop):
    try:
        with open(PATH) as f:
            data = json.load(f)
    except FileNotFoundError:
        return []
    return [e for e in data.get("findings", []) if e.get("property") == prop and e.get("status", "open") == "open"]


def match(entry, violation):
    """An entry matches when every key of entry['match'] equals the violation's value (lists
    compared as sets of JSON strings: the entry's `where` must cover the violation's `where`)."""
    m = entry.get("match", {})
    for k, v in m.items():
        got = violation.get(k)
        if k == "where":
            want = {json.dumps(x) for x in v}
            have = {json.dumps(x) for x in (got or [])}
            if not have or not have <= want:
                return False
        elif isinstance(v, list) and not isinstance(got, list):
            if got not in v:
                return False
        elif got != v:
            return False
    return True


def find(entries, violation):
    for e in entries:
        if match(e, violation):
            return e
    return None
