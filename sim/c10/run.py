"""C10 orchestrator: plan worlds from VERIF_SEED, execute them, compare every observation of a
program with its isolated reference, classify + minimise differences, write replay files and
evidence.  Exit 0 = property held on everything explored (known findings echoed), 1 = VIOLATION,
2 = HARNESS-ERROR."""
import collections
import concurrent.futures
import hashlib
import json
import os
import sys
import time
import traceback

from .. import findings as findings_mod
from .. import launch
from ..prng import Rng, derive
from ..shrink import ddmin
from . import oracle, workload

VERIF = launch.VERIF
PROP = "C10"


class Tier:
    def __init__(self, name):
        self.name = name
        q = name == "quick"
        self.n_generated = int(os.environ.get("VERIF_C10_GEN", 640 if q else 3000))
        self.n_hash = int(os.environ.get("VERIF_C10_HASH", 3 if q else 11))      # besides seed 0
        self.n_layout = int(os.environ.get("VERIF_C10_LAYOUT", 2 if q else 7))   # besides layout 0
        self.n_hist = int(os.environ.get("VERIF_C10_HIST", 28 if q else 420))
        self.hist_len = int(os.environ.get("VERIF_C10_HISTLEN", 420 if q else 700))
        self.sibling_fraction = float(os.environ.get("VERIF_C10_SIBLINGS", 0.35 if q else 1.0))
        self.n_files = int(os.environ.get("VERIF_C10_FILES", 12 if q else 120))
        self.files_len = 12 if q else 24
        self.n_selftest = 8 if q else 64
        self.n_fresh = 6 if q else 40
        self.max_minimise = int(os.environ.get("VERIF_C10_MAXMIN", 10 if q else 40))
        self.corpus_fraction = float(os.environ.get("VERIF_C10_CORPUS", 1.0))
        self.stack_faults = os.environ.get("VERIF_C10_STACK", "1") != "0"
        self.wall_budget = float(os.environ.get("VERIF_C10_WALL", 170 if q else 3000))


class Job:
    __slots__ = ("name", "kind", "hash", "layout", "ops", "meta")

    def __init__(self, name, kind, hash_seed, layout, ops, meta=None):
        self.name, self.kind, self.hash, self.layout, self.ops, self.meta = name, kind, hash_seed, layout, ops, meta or {}


def make_spec(programs, ops, layout, extra=None):
    used = {op["pid"] for op in ops if "pid" in op}
    for op in ops:
        used.update(op.get("pids", []))
    spec = {
        "programs": {p: programs[p] for p in sorted(used)},
        "extra_paths": [os.path.join(VERIF, "corpus")],
        "layout_seed": layout,
        "ops": ops,
    }
    if extra:
        spec.update(extra)
    return spec


class Runner:
    def __init__(self, tier, seed, workers):
        self.tier = tier
        self.seed = seed
        self.workers = workers
        self.t0 = time.time()
        self.pyc = None
        self.programs = {}
        self.family_of = {}
        self.stats = collections.Counter()
        self.fault_counts = collections.Counter()
        self.worlds_run = 0
        self.checks_run = 0
        self.digests = {}
        self.harness_errors = []
        self.samples = []
        self.scratch = None
        self.jobs = {}
        self.world_memo = {}
        self.iso_job_of = {}

    # ------------------------------------------------------------------ infrastructure
    def log(self, *a):
        print("[c10 %6.1fs]" % (time.time() - self.t0), *a, flush=True)

    def run_job(self, job):
        spec = make_spec(self.programs, job.ops, job.layout, job.meta.get("extra"))
        events, end = launch.run_world("c10", spec, job.hash, self.pyc.dir, timeout=job.meta.get("timeout", 900))
        return job, events, end

    def run_jobs(self, jobs):
        """Run jobs on the pool; returns {job.name: (job, events, end)}."""
        out = {}
        if not jobs:
            return out
        for j in jobs:
            self.jobs[j.name] = j
        with concurrent.futures.ThreadPoolExecutor(max_workers=self.workers) as ex:
            futs = {ex.submit(self.run_job, j): j for j in jobs}
            for fut in concurrent.futures.as_completed(futs):
                j = futs[fut]
                try:
                    job, events, end = fut.result()
                except launch.HarnessError as e:
                    self.harness_errors.append("%s: %s" % (j.name, e))
                    continue
                out[j.name] = (job, events, end)
                self.worlds_run += 1
                self.checks_run += sum(1 for e in events if e.get("op") in ("check", "recheck"))
                for e in events:
                    if e.get("op") == "files" and isinstance(e.get("obs"), dict):
                        self.checks_run += len(e["obs"].get("files", {}))
                self.digests[j.name] = end["digest"]
        return out

    # ------------------------------------------------------------------ planning
    def build_programs(self):
        r = Rng(self.seed, "c10", "programs")
        corpus = workload.load_corpus()
        if self.tier.corpus_fraction < 1.0:
            corpus = [c for c in corpus if r.chance(self.tier.corpus_fraction)]
        enabled = sorted(workload.FAMILIES)
        if os.environ.get("VERIF_C10_FAMILIES"):
            # development aid: restrict the generated families
            enabled = [f for f in enabled if f in os.environ["VERIF_C10_FAMILIES"].split(",")]
        gen, fam_of = workload.generate(self.seed, self.tier.n_generated, enabled)
        # mechanical siblings (same names, different meaning / order) of a seeded sample
        rs = Rng(self.seed, "c10", "siblings")
        sib = {}
        frac = self.tier.sibling_fraction
        for pid, code in list(corpus) + sorted(gen.items()):
            if rs.chance(frac):
                cands = workload.siblings(pid, code)
                norm = [c for c in cands if c[0].endswith("#norm")]
                cands = [c for c in cands if not c[0].endswith("#norm")]
                if cands:
                    picked = [rs.choice(cands)]
                    if norm and rs.chance(0.5):
                        picked.append(norm[0])
                    for spid, scode in picked:
                        sib[spid] = scode
                        fam_of[spid] = fam_of.get(pid) or ["snippet:" + pid.split("::")[0]]
        gen.update(sib)
        self.stats["programs_siblings"] = len(sib)
        # programs that would talk to each other through CPython's typing alias cache are not
        # unrelated (DESIGN.md section 3); decided statically, from the sources alone
        conflicts = workload.typing_cache_conflicts(list(corpus) + sorted(gen.items()))
        corpus = [c for c in corpus if c[0] not in conflicts]
        gen = {k: v for k, v in gen.items() if k not in conflicts}
        self.stats["programs_dropped_typing_cache_conflict"] = len(conflicts)
        by_family = collections.Counter()
        for pid in conflicts:
            for f in (fam_of.get(pid) or ["snippet"]):
                by_family[f] += 1
        self.dropped_by_family = dict(by_family)
        self.programs = dict(corpus)
        self.programs.update(gen)
        self.family_of = {pid: ["snippet:" + pid.split("::")[0]] for pid, _ in corpus}
        self.family_of.update(fam_of)
        self.order = [p for p, _ in corpus] + sorted(gen)
        self.stats["programs_corpus"] = len(corpus)
        self.stats["programs_generated"] = len(gen)

    def seeds_pool(self):
        r = Rng(self.seed, "c10", "seedpool")
        hashes = []
        while len(hashes) < self.tier.n_hash:
            h = 1 + r.below(4000)
            if h not in hashes:
                hashes.append(h)
        layouts = []
        while len(layouts) < self.tier.n_layout:
            layout = 1 + r.below(1 << 30)
            if layout not in layouts:
                layouts.append(layout)
        return hashes, layouts

    def iso_jobs(self, label, h, layout, pids=None, chunks=None):
        pids = list(pids if pids is not None else self.order)
        chunks = chunks or max(1, min(self.workers, len(pids) // 40 or 1))
        jobs = []
        for c in range(chunks):
            part = pids[c::chunks]
            if not part:
                continue
            ops = [{"op": "check", "pid": p, "isolate": True} for p in part]
            jobs.append(Job("%s/h%d/l%d/c%d" % (label, h, layout, c), "iso", h, layout, ops, {"pass": (h, layout)}))
        return jobs

    def hist_job(self, idx, hashes, layouts):
        r = Rng(self.seed, "c10", "hist", idx)
        # seeds: (h, 0) or (0, l) so that an isolated observation under the same seeds exists
        if r.chance(0.7) and hashes:
            h, layout = r.choice([0] + hashes), 0
        elif layouts:
            h, layout = 0, r.choice(layouts)
        else:
            h, layout = 0, 0
        n = min(len(self.order), max(20, int(self.tier.hist_len * (0.5 + r.random()))))
        mode = r.choice(["shuffle", "shuffle", "family", "family", "sorted", "reverse", "generated_only", "dense_family"])
        pool = list(self.order)
        if mode == "generated_only":
            pool = [p for p in pool if p.startswith("gen:")]
        elif mode == "dense_family":
            fams = sorted({f for p in pool for f in self.family_of[p]})
            chosen = set(r.sample(fams, min(len(fams), r.randint(1, 3))))
            pool = [p for p in pool if chosen & set(self.family_of[p])] or pool
        picked = r.sample(pool, min(n, len(pool)))
        if mode in ("family", "dense_family"):
            keyed = collections.defaultdict(list)
            for p in picked:
                keyed[self.family_of[p][0]].append(p)
            groups = list(keyed.values())
            r.shuffle(groups)
            picked = [p for g in groups for p in g]
        elif mode == "sorted":
            picked.sort()
        elif mode == "reverse":
            picked.sort(reverse=True)
        p_re = r.choice([0.05, 0.15, 0.3, 1.0])
        p_gc = r.choice([0.0, 0.02, 0.08])
        p_junk = r.choice([0.0, 0.02, 0.05])
        ops = []
        if r.chance(0.15):
            ops.append({"op": "gc", "mode": "disable"})
        done = []
        # fault: some predecessors are checked with only a few frames of stack left (RecursionError
        # at an arbitrary point of the checker); they and their re-checks are never compared
        p_stack = r.choice([0.0, 0.0, 0.03, 0.1, 0.25]) if self.tier.stack_faults else 0.0
        for p in picked:
            if r.chance(p_stack):
                ops.append({"op": "check", "pid": p, "stack": r.choice([r.randint(20, 90), r.randint(20, 260)])})
            else:
                ops.append({"op": "check", "pid": p})
            done.append(p)
            if r.chance(p_re):
                q = p if r.chance(0.7) else r.choice(done)
                ops.append({"op": "recheck", "pid": q})
                if r.chance(0.3):
                    ops.append({"op": "recheck", "pid": q})
            if r.chance(p_gc):
                ops.append({"op": "gc", "mode": "collect"})
            if r.chance(p_junk):
                ops.append({"op": "junk", "seed": 1 + r.below(1 << 30)})
        return Job("hist/%d" % idx, "hist", h, layout, ops, {"mode": mode, "pass": (h, layout)})

    def files_jobs(self, idx, hashes):
        r = Rng(self.seed, "c10", "files", idx)
        h = r.choice([0] + hashes) if hashes else 0
        pool = [p for p in self.order if oracle.file_route_ok(self.programs[p])]
        cross_file = {"class_attrs", "dynamic_attrs"}
        if idx % 4 == 0 and len([p for p in pool if cross_file & set(self.family_of[p])]) >= 4:
            # every fourth group: the families that the end-of-run, cross-file passes look at
            # (attribute reads/writes per class over all files of the invocation)
            pool = [p for p in pool if cross_file & set(self.family_of[p])]
        elif r.chance(0.6):
            # dense group: files from one or two families, so that same-named classes/functions with
            # different meaning meet in one invocation
            fams = sorted({f for p in pool for f in self.family_of[p] if not f.startswith("snippet:")})
            chosen = set(r.sample(fams, min(len(fams), r.randint(1, 2))))
            dense = [p for p in pool if chosen & set(self.family_of[p])]
            if len(dense) >= 4:
                pool = dense
        picked = r.sample(pool, min(self.tier.files_len, len(pool)))
        root = os.path.join(self.scratch, "files%d" % idx)
        jobs = []
        import re as _re
        # file names (hence module names and the sorted checking order) are fixed per group so
        # that the per-file and the all-in-one invocation see the very same files
        names = {p: "m%03d_%s.py" % (k, _re.sub(r"\W", "_", p)[-40:]) for k, p in enumerate(picked)}
        overrides = None
        if r.chance(0.4):
            # package layout with (nested) per-module option overrides from a configuration file
            dirs = ["", "pkga/", "pkga/strict/", "pkga/other/", "pkgb/", "pkgb/deep/er/"]
            names = {p: r.choice(dirs) + nm for p, nm in names.items()}
            toggles = [("undefined_name", False), ("possibly_undefined_name", False), ("incompatible_argument", False), ("unused_variable", False),
                       ("for_loop_always_entered", True), ("missing_return_annotation", True), ("incompatible_call", False), ("value_always_true", False)]
            toggles += [("reveal_type", False), ("undefined_attribute", False), ("incompatible_assignment", False)]
            overrides = []
            # always one nested pair (outer package and a sub-package of it), plus random others
            nested = r.choice([["pkga", "pkga.strict"], ["pkga", "pkga.other"], ["pkgb", "pkgb.deep"], ["pkgb.deep", "pkgb.deep.er"]])
            rest = [x for x in ["pkga", "pkga.strict", "pkga.other", "pkgb", "pkgb.deep", "pkgb.deep.er"] if x not in nested]
            for prefix in nested + r.sample(rest, r.randint(0, 3)):
                overrides.append([prefix, dict(r.sample(toggles, r.randint(1, 3)))])
            r.shuffle(overrides)
            if r.chance(0.5):
                some = r.choice(sorted(names.values()))
                overrides.append([some[:-3].replace("/", "."), dict(r.sample(toggles, 2))])
        ops_each = [{"op": "files", "mode": "each", "pids": [p], "root": root + "e", "isolate": True, "names": names, "overrides": overrides} for p in picked]
        jobs.append(Job("files/%d/each" % idx, "files", h, 0, ops_each, {"mode": "each", "group": idx}))
        mode = r.choice(["all", "all", "n2"])
        order = list(picked)
        ops_all = [{"op": "files", "mode": mode, "pids": order, "root": root + "a", "isolate": True, "names": names, "overrides": overrides}]
        jobs.append(Job("files/%d/%s" % (idx, mode), "files", h, 0, ops_all, {"mode": mode, "group": idx}))
        return jobs

    # ------------------------------------------------------------------ main flow
    def run(self):
        tier = self.tier
        self.build_programs()
        hashes, layouts = self.seeds_pool()
        self.log("seed=%d tier=%s programs=%d (corpus %d, generated %d) hash_pool=%s layout_pool=%s workers=%d aslr_pinned=%s" % (
            self.seed, tier.name, len(self.order), self.stats["programs_corpus"], self.stats["programs_generated"],
            [0] + hashes, [0] + layouts, self.workers, bool(launch.aslr_prefix())))
        import glob
        for old in glob.glob(os.path.join(launch.OUT, "replays", "C10-%d-*.json" % self.seed)):
            os.unlink(old)
        self.pyc = launch.PycCache("c10")
        self.scratch = os.path.join(self.pyc.dir, "scratch")
        os.makedirs(self.scratch, exist_ok=True)
        try:
            return self._run(hashes, layouts)
        finally:
            self.pyc.close()

    def _run(self, hashes, layouts):
        tier = self.tier
        # warm the private byte-code cache: one world that touches every route
        warm_pids = self.order[:3] + [p for p in self.order if p.startswith("gen:")][:40]
        file_ok = [p for p in warm_pids if oracle.file_route_ok(self.programs[p])][:2]
        warm_ops = [{"op": "check", "pid": p} for p in warm_pids]
        if file_ok:
            warm_ops.append({"op": "files", "mode": "all", "pids": file_ok, "root": os.path.join(self.scratch, "warm"), "isolate": False})
        try:
            launch.run_world("c10", make_spec(self.programs, warm_ops, 0), 0, self.pyc.dir, write_bytecode=True)
        except launch.HarnessError as e:
            self.harness_errors.append("warm-up: %s" % e)
            return self.finish([], [])
        self.log("byte-code cache warm")

        # 1. isolated passes: reference (0,0), hash worlds (h,0), layout worlds (0,l)
        jobs = self.iso_jobs("iso", 0, 0)
        for h in hashes:
            jobs += self.iso_jobs("iso", h, 0)
        for layout in layouts:
            jobs += self.iso_jobs("iso", 0, layout)
        res = self.run_jobs(jobs)
        iso = collections.defaultdict(dict)  # (h,l) -> pid -> obs
        for name, (job, events, end) in res.items():
            for e in events:
                if e.get("op") == "check":
                    iso[job.meta["pass"]][e["pid"]] = e["obs"]
                    self.iso_job_of[job.meta["pass"] + (e["pid"],)] = name
        self.fault_counts["hash_seed_change"] += len(hashes)
        self.fault_counts["heap_layout_shift"] += len(layouts)
        self.log("isolated passes done: %d worlds" % len(res))
        if self.harness_errors:
            return self.finish([], [])

        ref = iso[(0, 0)]
        usable = set()
        for pid in self.order:
            o = ref.get(pid)
            if o is None or "diags" not in o:
                self.stats["programs_dropped_reference_unusable"] += 1
                continue
            if "VERIF_PREDECESSOR_ONLY" in self.programs[pid]:
                # (the marker's value is not looked at: the litswap sibling turns `True` into `1`)
                # programs that exhaust the recursion limit: their own diagnostics legitimately depend
                # on how warm the caches are (a hit is a shallower call chain than a miss), so they are
                # never compared - but they stay in the histories, where the exceptions they provoke
                # exercise the checker's error paths
                self.stats["programs_predecessor_only"] += 1
                continue
            usable.add(pid)
        self.usable = usable
        self.ref = ref
        self.iso = iso
        leads = []
        for (h, layout), table in iso.items():
            if (h, layout) == (0, 0):
                continue
            mech = "hash" if layout == 0 else "layout"
            for pid, o in table.items():
                if pid not in usable:
                    continue
                d = oracle.compare(ref[pid], o)
                if d:
                    leads.append({"pid": pid, "mechanism": mech, "hash": h, "layout": layout, "diff": d,
                                  "world_a": self.iso_job_of[(0, 0, pid)], "world_b": self.iso_job_of[(h, layout, pid)]})

        # 2. history worlds and file-route worlds
        jobs = [self.hist_job(i, hashes, layouts) for i in range(tier.n_hist)]
        for j in jobs:
            # programs whose reference observation is unusable (they fail to import, mostly siblings)
            # stay in the histories as PREDECESSORS - a source that cannot be imported is a legitimate
            # thing to have been checked earlier - but are never compared themselves
            j.ops = [op for op in j.ops if op.get("pid") is None or op["pid"] in usable or op["op"] == "check"]
        fjobs = []
        for i in range(tier.n_files):
            fjobs += self.files_jobs(i, hashes)
        res2 = self.run_jobs(jobs + fjobs)
        self.log("history + file-route worlds done: %d worlds" % len(res2))
        pair_cov = set()
        state_keys = set()
        for name, (job, events, end) in sorted(res2.items()):
            if job.kind == "hist":
                base = iso[job.meta["pass"]]
                seen_before = []
                tainted = set()
                prefix = hashlib.sha256()
                for e in events:
                    op = e.get("op")
                    if op == "gc":
                        self.fault_counts["gc_point"] += 1
                    elif op == "junk":
                        self.fault_counts["heap_junk_between_ops"] += 1
                    if op not in ("check", "recheck"):
                        continue
                    pid = e["pid"]
                    if op == "recheck":
                        self.fault_counts["same_process_recheck"] += 1
                    else:
                        self.fault_counts["history_prefix_len_%s" % oracle.bucket(len(seen_before))] += 1
                        fam = self.family_of[pid][0]
                        for q in seen_before[-60:]:
                            if self.family_of[q][0] == fam and q != pid:
                                pair_cov.add((q, pid))
                    inv = e.get("inv") or {}
                    if inv.get("assumed") or inv.get("exclude_any") or inv.get("any_match"):
                        self.stats["invariant_leads"] += 1
                    state_keys.add((pid, job.hash, job.layout, prefix.hexdigest()[:16]))
                    if e.get("stack"):
                        tainted.add(pid)
                        self.fault_counts["stack_exhaustion_armed"] += 1
                        if "ecursion" in json.dumps(e.get("obs")):
                            self.fault_counts["stack_exhaustion_fired"] += 1
                        self.stats["stack_fault_calls_max"] = max(self.stats["stack_fault_calls_max"], e.get("calls", 0))
                        if e.get("aborted"):
                            # the faulted check used up its call budget: the world ended there
                            self.stats["stack_fault_overrun_world_ended"] += 1
                            self.stats["stack_fault_overrun:%s:%s" % (pid, e["stack"])] += 1
                    expect = base.get(pid)
                    if pid in usable and pid not in tainted and expect is not None and "diags" in expect:
                        d = oracle.compare(expect, e["obs"])
                        if d:
                            leads.append({"pid": pid, "mechanism": "history", "hash": job.hash, "layout": job.layout, "diff": d,
                                          "world_a": self.iso_job_of[job.meta["pass"] + (pid,)], "world_b": name,
                                          "index": e["i"], "recheck": op == "recheck"})
                    if op == "check":
                        seen_before.append(pid)
                        prefix.update(pid.encode())
            elif job.kind == "files":
                self.fault_counts["file_route_%s" % job.meta["mode"]] += 1
        # file route: compare all/n2 against each, same group
        groups = collections.defaultdict(dict)
        for name, (job, events, end) in res2.items():
            if job.kind == "files":
                merged = {}
                for e in events:
                    if e.get("op") == "files" and isinstance(e.get("obs"), dict):
                        if "files" not in e["obs"]:
                            self.stats["file_route_op_failed"] += 1
                            continue
                        for pid, o in e["obs"]["files"].items():
                            merged[pid] = o
                groups[job.meta["group"]][job.meta["mode"]] = (job, merged)
        for g, modes in sorted(groups.items()):
            if "each" not in modes:
                continue
            _, each = modes["each"]
            # An invocation that RAISES (pyanalyze itself crashes, e.g. in the attribute checker's
            # final pass) delivers no diagnostics for any of its files.  When a file of the group makes
            # its own single-file invocation raise the same way, the crash of the joint invocation is
            # attributable to that file alone and says nothing about the other files; a joint
            # invocation that raises although no member does so alone stays a lead.
            each_raised = {o.get("rc") for o in each.values() if isinstance(o.get("rc"), str) and o["rc"].startswith("raised:")}
            for mode, (job, merged) in modes.items():
                if mode == "each":
                    continue
                for pid, o in merged.items():
                    if pid == "<other>" or pid not in usable:
                        continue
                    if isinstance(o.get("rc"), str) and o["rc"].startswith("raised:") and o["rc"] in each_raised:
                        self.stats["file_route_joint_invocation_raised_like_member"] += 1
                        continue
                    if pid in each:
                        d = oracle.compare(each[pid], o)
                        if d:
                            leads.append({"pid": pid, "mechanism": "file_history", "hash": job.hash, "layout": 0, "diff": d,
                                          "world_a": "files/%d/each" % g, "world_b": job.name})
        self.stats["ordered_family_pairs_covered"] = len(pair_cov)
        self.stats["distinct_states"] = len(state_keys) + sum(len(t) for t in iso.values())
        self.res2 = res2

        # 2b. fork shortcut cross-check: a sample of programs is checked alone in a genuinely fresh
        # interpreter (no fork) and must give the observation of the fork-isolated reference
        leads += self.fresh_crosscheck()

        # 3. determinism self-test: re-run a sample of worlds, digests must be identical
        self.selftest(list(res.values()) + list(res2.values()))
        if self.harness_errors:
            return self.finish([], [])

        # 4. triage leads -> violations
        violations, known = self.triage(leads)
        return self.finish(violations, known)

    # ------------------------------------------------------------------ self tests
    def fresh_crosscheck(self):
        r = Rng(self.seed, "c10", "fresh")
        sample = r.sample(sorted(self.usable), min(self.tier.n_fresh, len(self.usable)))
        jobs = [Job("fresh/%d" % k, "fresh", 0, 0, [{"op": "check", "pid": p}], {"pid": p}) for k, p in enumerate(sample)]
        res = self.run_jobs(jobs)
        bad = 0
        leads = []
        for name, (job, events, end) in res.items():
            pid = job.meta["pid"]
            obs = oracle.target_obs(events, pid)
            d = oracle.compare(self.ref[pid], obs, use_ann=True)
            if d:
                # a fresh interpreter has another heap layout than the forked child: a difference
                # is a lead like any other (it must survive reproduction from the exact specs), not
                # a harness failure
                bad += 1
                leads.append({"pid": pid, "mechanism": "layout", "hash": 0, "layout": 0, "diff": d,
                              "world_a": self.iso_job_of[(0, 0, pid)], "world_b": name})
        self.stats["fresh_exec_crosschecks"] = len(res)
        self.stats["fresh_exec_differences"] = bad
        return leads
        self.fault_counts["fresh_interpreter_crosscheck"] += len(res)

    def selftest(self, done):
        r = Rng(self.seed, "c10", "selftest")
        sample = r.sample(sorted(done, key=lambda t: t[0].name), min(self.tier.n_selftest, len(done)))
        jobs = [t[0] for t in sample]
        # different worker count on purpose
        saved = self.workers
        self.workers = max(2, saved // 2 + 1)
        before = dict(self.digests)
        res = self.run_jobs(jobs)
        self.workers = saved
        bad = 0
        for name, (job, events, end) in res.items():
            if before.get(name) != end["digest"]:
                bad += 1
                self.harness_errors.append("non-deterministic world %s: digest %s vs %s" % (name, before.get(name), end["digest"]))
        self.stats["selftest_worlds_rerun"] = len(res)
        self.stats["selftest_digest_mismatches"] = bad
        self.log("determinism self-test: %d worlds re-run with %d workers, %d mismatches" % (len(res), max(2, saved // 2 + 1), bad))

    # ------------------------------------------------------------------ triage
    def triage(self, leads):
        known_entries = findings_mod.load(PROP)
        groups = collections.OrderedDict()
        for lead in leads:
            key = (lead["pid"], lead["mechanism"], lead["diff"]["level"], json.dumps(lead["diff"]["where"][:3]))
            groups.setdefault(key, []).append(lead)
        self.stats["leads"] = len(leads)
        self.stats["lead_groups"] = len(groups)
        if os.environ.get("VERIF_DUMP_LEADS"):
            with open(os.environ["VERIF_DUMP_LEADS"], "w") as f:
                json.dump(leads, f, indent=1)
        violations, known = [], []
        minimised = 0
        # one representative per (program, level, position): the same defect usually shows in
        # several worlds; mechanisms are tried in the order hash, layout, history, file_history
        rank = {"hash": 0, "layout": 1, "history": 2, "file_history": 3}
        by_site = collections.OrderedDict()
        for key, group in groups.items():
            site = (key[0], key[2], key[3])
            cur = by_site.get(site)
            if cur is None or rank[group[0]["mechanism"]] < rank[cur[0]["mechanism"]]:
                by_site[site] = group
        self.stats["lead_sites"] = len(by_site)
        max_sites = int(os.environ.get("VERIF_C10_MAXSITES", 30))
        for site, group in by_site.items():
            if len(violations) >= max_sites:
                self.stats["lead_sites_not_triaged"] += 1
                continue
            lead = group[0]
            v = {"property": PROP, "pid": lead["pid"], "mechanism": lead["mechanism"], "level": lead["diff"]["level"],
                 "where": lead["diff"]["where"], "occurrences": len(group), "hash": lead["hash"], "layout": lead["layout"]}
            try:
                case = self.case_for(lead)
                budget_ok = minimised < self.tier.max_minimise and time.time() - self.t0 < self.tier.wall_budget
                case, d = self.settle(case, lead, v, shrink=budget_ok)
                if budget_ok:
                    minimised += 1
            except launch.HarnessError as e:
                self.harness_errors.append("triage %s: %s" % (lead["pid"], e))
                continue
            if d is None:
                if v.get("unconfirmed"):
                    self.stats["annotation_leads_unconfirmed"] += 1
                    continue
                self.harness_errors.append("lead for %s (%s) did not reproduce from its own world specs" % (lead["pid"], lead["mechanism"]))
                continue
            v["level"], v["where"] = d["level"], d["where"]
            v["message_heads"] = oracle.diff_heads(d)
            entry = findings_mod.find(known_entries, v)
            if entry is not None:
                known.append((entry, v))
                continue
            self.write_replay(case, lead, v, d)
            violations.append(v)
        return violations, known

    # -- cases ----------------------------------------------------------------------------
    def case_for(self, lead):
        """A case = two exact world specs (a = baseline, b = perturbed) as they ran, cut after the
        target operation.  Worlds are deterministic, so a case reproduces by construction."""
        pid = lead["pid"]
        ja = self.jobs[lead["world_a"]]
        jb = self.jobs[lead["world_b"]]

        def side(job, index=None):
            ops = list(job.ops)
            if index is None:
                for k, op in enumerate(ops):
                    if op.get("pid") == pid or pid in op.get("pids", []):
                        index = k
            return {"hash": job.hash, "layout": job.layout, "ops": ops, "target": index}

        idx_b = None
        if lead["mechanism"] == "history":
            # event index i == op index (one event per op, after the boot event)
            idx_b = lead["index"]
        return {"pid": pid, "programs": dict(self.programs), "a": side(ja), "b": side(jb, idx_b)}

    def side_spec(self, case, side):
        s = case[side]
        return make_spec(case["programs"], [dict(op) for op in s["ops"]], s["layout"]), s["hash"]

    def eval_cases(self, cases, use_ann=True):
        """-> list of diff-or-None.  Identical (spec, hash) worlds are executed once."""
        todo = {}
        keys = []
        for c in cases:
            pair = []
            for side in ("a", "b"):
                spec, h = self.side_spec(c, side)
                k = hashlib.sha256((json.dumps(spec, sort_keys=True) + "|%d" % h).encode()).hexdigest()
                # candidate worlds run in parallel: every distinct spec gets its own scratch tree
                # (two worlds sharing one would delete each other's files)
                for op in spec["ops"]:
                    if "root" in op:
                        op["root"] = os.path.join(self.scratch, "w" + k[:20])
                if k not in self.world_memo:
                    todo[k] = (spec, h)
                pair.append(k)
            keys.append(pair)

        def one(item):
            k, (spec, h) = item
            events, end = launch.run_world("c10", spec, h, self.pyc.dir, timeout=600)
            return k, events

        if todo:
            with concurrent.futures.ThreadPoolExecutor(max_workers=self.workers) as ex:
                for k, events in ex.map(one, list(todo.items())):
                    self.worlds_run += 1
                    self.world_memo[k] = events
        out = []
        for c, (ka, kb) in zip(cases, keys):
            oa = oracle.target_obs(self.world_memo[ka], c["pid"], c["a"]["target"])
            ob = oracle.target_obs(self.world_memo[kb], c["pid"], c["b"]["target"])
            if oa is None or ob is None or "diags" not in oa or "diags" not in ob:
                out.append(None)
                continue
            d = oracle.compare(oa, ob, use_ann=use_ann)
            if d:
                d["obs_a"], d["obs_b"] = oracle.brief(oa), oracle.brief(ob)
            out.append(d)
        if len(self.world_memo) > 400:
            self.world_memo.clear()
        return out

    def settle(self, case, lead, v, shrink):
        """Reproduce, confirm (annotation leads), shrink.  Returns (case, diff or None)."""
        (d,) = self.eval_cases([case])
        if d is None:
            return case, None
        if d["level"] == "revealed":
            case2 = self.confirm_revealed(case, d)
            if case2 is None:
                v["unconfirmed"] = True
                return case, None
            case = case2
            (d,) = self.eval_cases([case], use_ann=False)
            v["confirmed_via"] = "reveal_type() wrapped around the differing name"
        level = d["level"]

        def ok(diff):
            return diff is not None and oracle.LEVELS.index(diff["level"]) <= oracle.LEVELS.index(level) and diff["level"] != "revealed"

        def test(cands):
            return [ok(x) for x in self.eval_cases(cands, use_ann=False)]

        if not shrink:
            return case, d
        pid = case["pid"]

        def with_ops(c, side, prefix):
            c2 = dict(c)
            target = c[side]["ops"][c[side]["target"]]
            c2[side] = dict(c[side], ops=list(prefix) + [target], target=len(prefix))
            return c2

        # 0. drop everything after the target operation
        cut = case
        for side in ("a", "b"):
            cut = with_ops(cut, side, cut[side]["ops"][: cut[side]["target"]])
        if test([cut])[0]:
            case = cut
        else:
            self.stats["fragile_cases_kept_uncut"] += 1
            return case, d
        # 1. canonical small forms first (both sides just the target)
        small = with_ops(with_ops(case, "a", []), "b", [])
        if lead["mechanism"] in ("hash", "layout") and test([small])[0]:
            case = small
        else:
            for side in ("b", "a"):
                prefix = case[side]["ops"][:-1]
                if not prefix:
                    continue
                if test([with_ops(case, side, [])])[0]:
                    case = with_ops(case, side, [])
                    continue
                kept = ddmin(prefix, lambda cands, side=side: test([with_ops(case, side, c) for c in cands]))
                case = with_ops(case, side, kept)
        # 2. for the file route the history is the pid list of the single op
        if lead["mechanism"] == "file_history":
            op = case["b"]["ops"][-1]
            others = [p for p in op["pids"] if p != pid]

            def with_pids(keep):
                c2 = dict(case)
                keepset = set(keep) | {pid}
                c2["b"] = dict(case["b"], ops=[dict(op, pids=[p for p in op["pids"] if p in keepset])])
                return c2
            kept = ddmin(others, lambda cands: test([with_pids(c) for c in cands]))
            case = with_pids(kept)
        # 3. shrink the program by top-level units
        units = oracle.split_units(case["programs"][pid])
        if len(units) > 1:
            def with_program(us):
                code = oracle.join_units(us)
                if code is None:
                    return None
                c2 = dict(case)
                c2["programs"] = dict(case["programs"])
                c2["programs"][pid] = code
                return c2

            def test_units(cands):
                cs = [with_program(c) for c in cands]
                live = [c for c in cs if c is not None]
                res = iter(test(live)) if live else iter(())
                return [next(res) if c is not None else False for c in cs]
            kept = ddmin(units, test_units)
            c2 = with_program(kept)
            if c2 is not None and test([c2])[0]:
                case = c2
        (d2,) = self.eval_cases([case], use_ann=False)
        return case, (d2 if ok(d2) else d)

    def confirm_revealed(self, case, d):
        """Rewrite the program so that a differing Name is wrapped in a real reveal_type() and
        re-run both worlds; a violation only if real diagnostics differ."""
        pid = case["pid"]
        code = case["programs"][pid]
        cands = []
        for w in d["where"][:4]:
            new = oracle.wrap_reveal(code, w[0], w[1], w[2])
            if new is None:
                continue
            c2 = dict(case)
            c2["programs"] = dict(case["programs"])
            c2["programs"][pid] = new
            cands.append(c2)
        if not cands:
            return None
        for c2, diff in zip(cands, self.eval_cases(cands, use_ann=False)):
            if diff is not None:
                return c2
        return None

    def write_replay(self, case, lead, v, d):
        pid = case["pid"]
        worlds = []
        for side, label in (("a", "baseline"), ("b", "perturbed")):
            spec, h = self.side_spec(case, side)
            for op in spec["ops"]:
                if "root" in op:
                    op["root"] = "<scratch>/" + os.path.basename(op["root"])
            worlds.append({"label": label, "hash": h, "spec": spec, "target": case[side]["target"]})
        v["program"] = case["programs"][pid]
        v["history_len"] = len(case["b"]["ops"]) - 1
        rep = {
            "property": PROP, "seed": self.seed, "tier": self.tier.name, "pid": pid, "mechanism": lead["mechanism"],
            "level": d["level"], "where": d["where"], "worlds": worlds,
            "observed": {"baseline": d.get("obs_a"), "perturbed": d.get("obs_b")}, "detail": d.get("detail"),
        }
        os.makedirs(os.path.join(launch.OUT, "replays"), exist_ok=True)
        tag = hashlib.sha256(json.dumps([pid, lead["mechanism"], d["level"], d["where"]], sort_keys=True).encode()).hexdigest()[:10]
        path = os.path.join(launch.OUT, "replays", "C10-%d-%s.json" % (self.seed, tag))
        with open(path, "w") as f:
            json.dump(rep, f, indent=1, sort_keys=True)
        v["replay"] = path

    # ------------------------------------------------------------------ reporting
    def finish(self, violations, known):
        wall = time.time() - self.t0
        for entry, v in known:
            print("KNOWN-FINDING: property=%s %s [%s]" % (PROP, entry.get("what", entry.get("id")), entry.get("id")), flush=True)
        seen_known = set()
        nontrivial = set()
        for pid in getattr(self, "usable", ()):
            if oracle.nontrivial(self.ref[pid]):
                nontrivial.add(pid)
        samples = []
        for pid in sorted(nontrivial)[:2] + sorted(p for p in nontrivial if p.startswith("gen:"))[:2]:
            samples.append({"program": pid, "source": self.programs[pid][:1500], "reference_observation": oracle.brief(self.ref[pid])})
        if getattr(self, "res2", None):
            for name in sorted(self.res2)[:2]:
                job = self.res2[name][0]
                samples.append({"world": name, "hash_seed": job.hash, "layout_seed": job.layout, "mode": job.meta.get("mode"),
                                "first_ops": job.ops[:12], "ops": len(job.ops), "digest": self.digests.get(name)})
        evidence = {
            "property_id": PROP, "tier": self.tier.name, "seed": self.seed, "level": "exploration",
            "wall_s": round(wall, 2), "violations": len(violations),
            "coverage": {
                "repo": launch.repo_provenance(),
                "evaluations": int(self.checks_run),
                "distinct_nontrivial": len(nontrivial),
                "rule": "evaluation = one check of one program by real pyanalyze in one world (hash seed x heap layout x history prefix x route); "
                        "distinct_nontrivial = distinct programs whose reference observation carries an order-bearing construct "
                        "(a union ' | ', a multi-member Literal[...], a quoted name list) or >= 2 diagnostics",
                "samples": samples,
                "worlds": self.worlds_run,
                "worlds_per_hour": round(self.worlds_run / wall * 3600) if wall else 0,
                "program_checks_per_hour": round(self.checks_run / wall * 3600) if wall else 0,
                "programs": len(getattr(self, "usable", ())),
                "stats": dict(self.stats),
                "typing_cache_conflict_drops_by_family": getattr(self, "dropped_by_family", {}),
                "perturbations_fired": dict(self.fault_counts),
                "fault_kinds_not_present_in_system": ["message loss/duplication/reordering", "partitions", "clock skew", "timers",
                                                      "disk write faults (C10 reads sources only)", "thread interleavings"],
                "simulated_time": "not applicable: pyanalyze has no timers; the simulated clock only pins the one log line that reads it",
                "distinct_states_measure": "distinct (program, hash seed, layout seed, history-prefix digest) observations",
                "distinct_states": int(self.stats.get("distinct_states", 0)),
                "ordered_family_pairs_covered": int(self.stats.get("ordered_family_pairs_covered", 0)),
                "determinism_selftest": {"worlds_rerun": int(self.stats.get("selftest_worlds_rerun", 0)),
                                         "digest_mismatches": int(self.stats.get("selftest_digest_mismatches", 0))},
                "fresh_exec_crosscheck": {"programs": int(self.stats.get("fresh_exec_crosschecks", 0)), "differences_treated_as_leads": int(self.stats.get("fresh_exec_differences", 0))},
                "aslr_pinned": bool(launch.aslr_prefix()),
                "real_code": ["pyanalyze (all of it, from the working tree)", "qcore, asynq, typeshed_client, ast_decompiler, tomli",
                              "CPython hashing, allocator, import system", "file system under the scratch tree (file route)"],
                "stubbed": ["wall clock (simulated, reset per operation)", "secrets.token_hex (pure function of program id)",
                            "process start on the fast path (fork instead of exec)"],
                "known_findings_echoed": len(known),
                "harness_errors": self.harness_errors[:10],
            },
            "assumptions": [
                "sampling, not enumeration: a clean batch is evidence, not proof",
                "histories consist of programs unrelated in the sense of DESIGN.md section 3",
                "layout dependence is explored only as far as seeded heap shifts move small-set iteration order",
            ],
        }
        os.makedirs(os.path.join(launch.OUT, "evidence"), exist_ok=True)
        with open(os.path.join(launch.OUT, "evidence", "C10.json"), "w") as f:
            json.dump(evidence, f, indent=1, sort_keys=True)
        self.log("worlds=%d checks=%d leads=%d groups=%d violations=%d known=%d wall=%.1fs" % (
            self.worlds_run, self.checks_run, self.stats.get("leads", 0), self.stats.get("lead_groups", 0), len(violations), len(known), wall))
        if self.harness_errors:
            for e in self.harness_errors[:20]:
                print("HARNESS-ERROR %s" % e, flush=True)
            return 2
        for v in violations:
            print("  violation: pid=%s mechanism=%s level=%s where=%s history_len=%s" % (
                v["pid"], v["mechanism"], v["level"], json.dumps(v["where"][:3]), v.get("history_len")), flush=True)
            print("VIOLATION property=%s replay=%s" % (PROP, v.get("replay")), flush=True)
        return 1 if violations else 0


def replay(path):
    with open(path) as f:
        rep = json.load(f)
    pyc = launch.PycCache("c10r")
    try:
        specs = rep["worlds"]
        root = os.path.join(pyc.dir, "scratch")
        os.makedirs(root, exist_ok=True)
        for w in specs:
            for op in w["spec"]["ops"]:
                if "root" in op:
                    op["root"] = os.path.join(root, os.path.basename(op["root"]))
        launch.run_world("c10", specs[0]["spec"], 0, pyc.dir, write_bytecode=True)
        obs = []
        for w in specs:
            events, end = launch.run_world("c10", w["spec"], w["hash"], pyc.dir)
            obs.append(oracle.target_obs(events, rep["pid"], w.get("target")))
            print("world %-22s hash=%s digest=%s" % (w["label"], w["hash"], end["digest"]))
        d = oracle.compare(obs[0] or {}, obs[1] or {}) if obs[0] and obs[1] and "diags" in obs[0] and "diags" in obs[1] else None
        if d:
            print("reproduced: level=%s where=%s" % (d["level"], json.dumps(d["where"][:4])))
            print(d.get("detail", ""))
            print("VIOLATION property=%s replay=%s" % (PROP, path))
            return 1
        print("not reproduced: both worlds agree on %s" % rep["pid"])
        return 0
    finally:
        pyc.close()


def main(argv):
    if len(argv) >= 2 and argv[0] == "--replay":
        return replay(argv[1])
    tier = Tier(argv[0] if argv else os.environ.get("VERIF_TIER", "quick"))
    seed = int(os.environ.get("VERIF_SEED", "0"))
    workers = int(os.environ.get("VERIF_WORKERS", str(os.cpu_count() or 4)))
    print("VERIF_SEED=%d" % seed, flush=True)
    try:
        return Runner(tier, seed, workers).run()
    except launch.HarnessError as e:
        print("HARNESS-ERROR %s" % e, flush=True)
        return 2
    except Exception:
        print("HARNESS-ERROR unexpected: %s" % traceback.format_exc(), flush=True)
        return 2


if __name__ == "__main__":
    sys.exit(main(sys.argv[1:]))
