"""C10 workload: the frozen snippet corpus plus seeded generated families.

Every generated program imports only the standard library, typing(_extensions) and the frozen
`vlib` package, defines only functions/classes at module level (so importing it has no effect
beyond defining names) and uses no sets of strings, no clock, no randomness and no I/O.  Two
programs are therefore *unrelated* in the sense of DESIGN.md section 3.
"""
import hashlib
import json
import os

from ..prng import Rng

VERIF = os.path.dirname(os.path.dirname(os.path.dirname(os.path.abspath(__file__))))
CORPUS = os.path.join(VERIF, "corpus")


def load_corpus():
    with open(os.path.join(CORPUS, "snippets.json")) as f:
        data = json.load(f)
    return [(s["id"], s["code"]) for s in data]


# ---------------------------------------------------------------------------------------
# building blocks

SCALARS = ["int", "str", "bytes", "bool", "float", "None"]
GETTERS = {"int": "IntGetter", "str": "StrGetter", "bytes": "BytesGetter", "bool": "BoolGetter",
           "float": "FloatGetter", "None": "NoneGetter"}
LITS = ["1", "2", '"a"', '"b"', 'b"c"', "2.5", "None", "True", "False", "(1, 2)", "0"]
TYPED_EXPR = {"int": "1", "str": '"s"', "bytes": 'b"y"', "bool": "True", "float": "1.5", "None": "None"}


def _union(r, k=None, pool=SCALARS):
    """Members are spelled in one canonical (alphabetical) order everywhere: CPython's typing
    module caches List[Union[int, str]] and hands the same object back for
    List[Union[str, int]], so two programs spelling one member set in different orders would
    communicate through that process-global cache - they would not be unrelated."""
    k = k or r.randint(2, min(5, len(pool)))
    members = sorted(r.sample(pool, k))
    return "Union[%s]" % ", ".join(members), members


def fam_generic_protocol(r, n):
    lines = ["from typing import Union, Optional, List",
             "from vlib.protos import HasGet, HasPut, Box, Pair, IntGetter, StrGetter, BytesGetter, BoolGetter, FloatGetter, NoneGetter, IntBox, StrBox, HalfBox, IntStrPair, StrIntPair, GenericGetter",
             ""]
    a = r.choice(SCALARS)
    lines += ["def want_%d(x: HasGet[%s]) -> None:" % (n, a), "    pass", ""]
    lines += ["def use_%d() -> None:" % n]
    for _ in range(r.randint(2, 5)):
        kind = r.below(6)
        if kind == 0:
            lines.append("    want_%d(%s())" % (n, GETTERS[r.choice(SCALARS)]))
        elif kind == 1:
            t = r.choice(SCALARS)
            lines.append("    v%d: HasGet[%s] = %s()" % (r.below(100), t, GETTERS[r.choice(SCALARS)]))
        elif kind == 2:
            t = r.choice(["int", "str"])
            lines.append("    b%d: Box[%s] = %s()" % (r.below(100), t, r.choice(["IntBox", "StrBox", "HalfBox"])))
        elif kind == 3:
            k, v = r.choice(["int", "str"]), r.choice(["int", "str"])
            lines.append("    p%d: Pair[%s, %s] = %s()" % (r.below(100), k, v, r.choice(["IntStrPair", "StrIntPair"])))
        elif kind == 4:
            t = r.choice(SCALARS[:5])
            lines.append("    g%d: HasGet[%s] = GenericGetter(%s)" % (r.below(100), t, TYPED_EXPR[r.choice(SCALARS[:5])]))
        else:
            u, _m = _union(r, None, SCALARS[:5])
            lines.append("    w%d: HasGet[%s] = %s()" % (r.below(100), u, GETTERS[r.choice(SCALARS[:5])]))
    lines.append("")
    return lines


def fam_recursive_protocol(r, n):
    lines = ["from vlib.protos import RecP, RecQ, RecA, RecB, Node, RecX, RecFull, RecAB, RecABNoNum, RecABNoTag, Tree, BadTree", ""]
    stmts = []
    combos = [("RecP", "RecX"), ("RecQ", "RecX"), ("RecP", "RecFull"), ("RecQ", "RecFull"),
              ("RecA", "RecAB"), ("RecB", "RecAB"), ("RecA", "RecABNoNum"), ("RecB", "RecABNoNum"),
              ("RecA", "RecABNoTag"), ("RecB", "RecABNoTag"), ("Node", "Tree"), ("Node", "BadTree")]
    for i, (p, c) in enumerate(r.sample(combos, r.randint(1, 4))):
        stmts.append("    x%d: %s = %s()" % (i, p, c))
    lines += ["def rec_%d() -> None:" % n] + stmts + [""]
    return lines


def fam_overloads(r, n):
    lines = ["from typing import Any, Union, List, Dict, Tuple",
             "from vlib.funcs import pick, conv, first", ""]
    u, _m = _union(r, None, ["int", "str", "bytes", "float", "None"])
    lines += ["def ov_%d(x: %s, a: Any, li: List[int], d: Dict[str, int], t: Tuple[bytes, ...]) -> None:" % (n, u)]
    exprs = ["pick(x)", "pick(a)", "pick(1)", 'pick("s")', 'pick(b"b", True)', "pick(1.5)", "conv(1, as_text=True)",
             "conv(1)", "conv(1, as_text=False)", 'conv("s")', "conv(x)", "first(li)", "first(d)", "first(t)",
             "first(a)", "first(x)", "pick(x, flag=True)", "conv(a, as_text=a)"]
    for e in r.sample(exprs, r.randint(3, 7)):
        lines.append("    reveal_type(%s)" % e)
    lines.append("")
    return lines


def fam_records(r, n):
    lines = ["from vlib.data import Movie, PartialMovie, Mixed, Point, Account, Frozen", ""]
    lines += ["def rec_%d() -> None:" % n]
    stmts = [
        'm%d: Movie = {"title": "t", "year": 1}',
        'm%d: Movie = {"title": "t"}',
        'm%d: Movie = {"title": "t", "year": "y", "extra": 1, "more": 2}',
        'm%d: Movie = {"year": 1, "zeta": 0, "alpha": 0, "mid": 0}',
        'm%d: PartialMovie = {"rating": 1.0}',
        'm%d: PartialMovie = {"rating": "x", "bogus": 1}',
        'm%d: Mixed = {"ident": 1, "tags": ["a"]}',
        'm%d: Mixed = {"label": "l"}',
        "m%d = Point(1, 2)",
        'm%d = Point(1, "2", 3, 4)',
        "m%d = Point(x=1)",
        "m%d = Point(1, 2, z=3, w=4, q=5)",
        'm%d = Account("o", 1, ["t"])',
        "m%d = Account(1, balance='x')",
        'm%d = Account(owner="o", bogus=1, other=2, third=3)',
        "m%d = Frozen(1)",
        'm%d = Frozen(1, "b").a',
        'm%d = Movie(title="t", year=1, zed=2, abc=3)',
    ]
    for i, s in enumerate(r.sample(stmts, r.randint(2, 6))):
        lines.append("    " + s % i)
        if r.chance(0.5):
            lines.append("    reveal_type(m%d)" % i)
    lines.append("")
    return lines


def fam_or_chain(r, n):
    lines = ["from typing import Union, Optional", "from vlib.data import Color, Suit, Level", ""]
    u, members = _union(r, r.randint(3, 6))
    lines += ["def narrow_%d(x: %s, y: %s) -> None:" % (n, u, u)]
    kind = r.below(5)
    lits = r.sample(LITS, r.randint(2, 5))
    if kind == 0:
        cond = " or ".join("x == %s" % l for l in lits)
    elif kind == 1:
        cond = "x in (%s,)" % ", ".join(lits)
    elif kind == 2:
        ts = r.sample([m for m in members if m != "None"] or ["int"], r.randint(1, min(3, len(members))))
        cond = " or ".join("isinstance(x, %s)" % t for t in ts)
        if "None" in members and r.chance(0.5):
            cond += " or x is None"
    elif kind == 3:
        cond = " or ".join("x is %s" % l for l in r.sample(["None", "True", "False"], 2))
    else:
        cond = " or ".join(["x == %s" % lits[0], "y == %s" % lits[-1]] + ["x == %s" % l for l in lits[1:-1]])
    lines += ["    if %s:" % cond, "        reveal_type(x)", "        reveal_type(y)", "    else:", "        reveal_type(x)", "    reveal_type(x)", ""]
    return lines


def fam_keywords(r, n):
    lines = ["from vlib.funcs import many, kwonly, posonly, varargs, optional, takes_literal, no_annotations", ""]
    names = ["foo", "bar", "baz", "quux", "zed", "alpha2", "omega", "kappa", "mu", "nu"]
    lines += ["def kw_%d() -> None:" % n]
    for _ in range(r.randint(2, 5)):
        kind = r.below(7)
        extra = ", ".join("%s=%d" % (k, i) for i, k in enumerate(r.sample(names, r.randint(2, 6))))
        if kind == 0:
            lines.append("    many(1, %s)" % extra)
        elif kind == 1:
            lines.append("    kwonly(%s)" % extra)
        elif kind == 2:
            lines.append("    kwonly(alpha=1)")
        elif kind == 3:
            lines.append("    posonly(1, %s)" % extra)
        elif kind == 4:
            lines.append("    varargs(1, 2, %s)" % extra)
        elif kind == 5:
            lines.append("    takes_literal(%s)" % r.choice(['"r"', '"x"', "1", '"rw"']))
        else:
            lines.append("    many(%s)" % extra)
    lines.append("")
    return lines


def fam_typevars(r, n):
    lines = ["from typing import List, Union, Any", "from vlib.funcs import identity, number, shout, biggest, pair, apply, Rank, Comparable, int_to_bool", ""]
    u, _ = _union(r, None, ["int", "str", "float", "bytes"])
    lines += ["def tv_%d(u: %s, a: Any, ranks: List[Rank], ints: List[int]) -> None:" % (n, u)]
    exprs = ["identity(u)", "identity(a)", "number(1, 2)", "number(1, 2.5)", 'number(1, "s")', "number(u, u)", 'shout("s")',
             "shout(1)", "shout(u)", "biggest(ranks)", "biggest(ints)", "pair(1, 2)", 'pair(1, "s")', "pair(u, a)",
             "apply(int_to_bool, 1)", "apply(identity, u)", "pair(u, 1)", "number(a, 1)"]
    for e in r.sample(exprs, r.randint(3, 7)):
        lines.append("    reveal_type(%s)" % e)
    lines.append("")
    return lines


def fam_enums(r, n):
    lines = ["from typing import Union", "from typing_extensions import Literal, assert_never", "from vlib.data import Color, Suit, Level", ""]
    enum, members = r.choice([("Color", ["RED", "GREEN", "BLUE"]), ("Suit", ["CLUBS", "DIAMONDS", "HEARTS", "SPADES"]),
                              ("Level", ["LOW", "MID", "HIGH"])])
    picked = r.sample(members, r.randint(1, len(members)))
    lines += ["def en_%d(c: %s, m: Literal['r', 'w', 'a', 'x']) -> None:" % (n, enum)]
    kind = r.below(4)
    if kind == 0:
        first = True
        for mname in picked:
            lines.append("    %s c is %s.%s:" % ("if" if first else "elif", enum, mname))
            lines.append("        reveal_type(c)")
            first = False
        lines += ["    else:", "        reveal_type(c)", "        assert_never(c)"]
    elif kind == 1:
        lines += ["    if %s:" % " or ".join("c == %s.%s" % (enum, m) for m in picked), "        reveal_type(c)", "    else:", "        reveal_type(c)"]
    elif kind == 2:
        ms = r.sample(["'r'", "'w'", "'a'", "'x'"], r.randint(2, 4))
        lines += ["    if %s:" % " or ".join("m == %s" % x for x in ms), "        reveal_type(m)", "    else:", "        reveal_type(m)", "        assert_never(m)"]
    else:
        lines += ["    if c in (%s,):" % ", ".join("%s.%s" % (enum, m) for m in picked), "        reveal_type(c)", "    else:", "        reveal_type(c)"]
    lines.append("")
    return lines


def fam_union_attrs(r, n):
    lines = ["from typing import Union, Optional", "from vlib.data import Animal, Dog, Cat, Fish, Stack, Account, Point", ""]
    pool = ["Dog", "Cat", "Fish", "Stack", "Account", "Point", "None", "int"]
    u, _ = _union(r, r.randint(2, 5), pool)
    lines += ["def at_%d(x: %s) -> None:" % (n, u)]
    for attr in r.sample(["legs", "name", "fetch", "purr", "fins", "swim", "items", "owner", "x", "speak", "tag", "bogus", "real", "push"], r.randint(2, 5)):
        if r.chance(0.5):
            lines.append("    reveal_type(x.%s)" % attr)
        else:
            lines.append("    x.%s" % attr)
    lines.append("")
    return lines


def fam_overrides(r, n):
    lines = ["from vlib.data import Base, Animal", ""]
    variants = [
        ("method", "(self, x: int) -> int", "return x"),
        ("method", "(self, x: str) -> int", "return 0"),
        ("method", "(self, x: int, y: int) -> int", "return x"),
        ("method", "(self) -> int", "return 0"),
        ("other", "(self, x: int, y: str = '') -> str", "return y"),
        ("other", "(self, x: int) -> str", "return ''"),
        ("other", "(self, x: int, y: str = '', *, z: int) -> bytes", "return b''"),
    ]
    lines += ["class Child_%d(Base):" % n]
    used = set()
    for name, sig, body in r.sample(variants, r.randint(1, 3)):
        if name in used:
            continue
        used.add(name)
        lines += ["    def %s%s:" % (name, sig), "        %s" % body, ""]
    lines += ["class Pet_%d(Animal):" % n, "    def speak(self, loud: %s = False) -> %s:" % (r.choice(["bool", "int", "str"]), r.choice(["str", "int", "bytes"])),
              "        return ''  # type: ignore", ""]
    return lines


def fam_asynq(r, n):
    lines = ["from asynq import asynq", "from vlib.asyncs import fetch, fetch_many, sync_fetch, Service", ""]
    if r.chance(0.5):
        lines += ["@asynq()", "def as_%d(uid: int, s: Service):" % n]
        for e in r.sample(["yield fetch.asynq(uid)", "yield fetch_many.asynq([uid])", "fetch(uid)", "x = yield s.load.asynq('k')",
                           "y = yield fetch.asynq('bad')", "sync_fetch(uid)", "z = yield fetch.asynq(uid), fetch.asynq(uid)",
                           "s.load('k')"], r.randint(2, 5)):
            lines.append("    " + e)
        lines.append("    reveal_type(uid)")
    else:
        lines += ["def pl_%d(uid: int, s: Service) -> None:" % n]
        for e in r.sample(["reveal_type(fetch(uid))", "reveal_type(fetch.asynq(uid))", "reveal_type(fetch_many([uid, 'x']))",
                           "reveal_type(s.load('k'))", "reveal_type(s.plain(1))", "reveal_type(sync_fetch(uid))"], r.randint(2, 5)):
            lines.append("    " + e)
    lines.append("")
    return lines


def fam_evaluated(r, n):
    lines = ["from typing import Any, Union, List", "from vlib.evals import strict_int, lenient_int, with_default, complain", ""]
    u, _ = _union(r, None, ["int", "str", "bytes"])
    lines += ["def ev_%d(a: Any, u: %s, i: int, s: str) -> None:" % (n, u)]
    exprs = ["strict_int(a)", "strict_int(i)", "strict_int(u)", "lenient_int(a)", "lenient_int(s)", "lenient_int(u)",
             "with_default(1)", "with_default(1, 's')", "with_default(i, y=s)", "complain(s)", "complain(i)", "complain(u)", "complain(a)"]
    for e in r.sample(exprs, r.randint(3, 6)):
        lines.append("    reveal_type(%s)" % e)
    for k in range(r.randint(0, 3)):
        lines.append("    q%d: %s = a" % (k, r.choice(["int", "str", "List[int]"])))
        lines.append("    z%d: int = %s" % (k, r.choice(["a", "s", "u", "i"])))
    lines.append("")
    return lines


def fam_unused(r, n):
    lines = ["def un_%d(p: int, q: str) -> int:" % n]
    k = r.randint(3, 12)
    names = r.sample(["alpha", "beta", "gamma", "delta", "eps", "zeta", "eta", "theta", "iota", "kappa", "lam", "mu", "nu", "xi"], k)
    for i, nm in enumerate(names):
        form = r.below(5)
        if form == 0:
            lines.append("    %s = p + %d" % (nm, i))
        elif form == 1:
            lines.append("    %s, keep%d = p, q" % (nm, i))
            lines.append("    print(keep%d)" % i)
        elif form == 2:
            lines.append("    for %s in range(p): pass" % nm)
        elif form == 3:
            lines.append("    %s: int = %d" % (nm, i))
        else:
            lines.append("    %s = undefined_%d + undefined_%d" % (nm, i, i + 1))
    lines += ["    return p", ""]
    return lines


def fam_branches(r, n):
    """Definitions reaching a use from several branches (union member order)."""
    lines = ["def br_%d(c1: bool, c2: bool, c3: bool, items: list) -> None:" % n]
    vals = r.sample(LITS + ["[1]", "{}", "items", "c1"], r.randint(3, 6))
    kind = r.below(5)
    if kind == 0:
        for i, v in enumerate(vals):
            lines.append("    %s c%d:" % ("if" if i == 0 else "elif", 1 + i % 3))
            lines.append("        x = %s" % v)
        lines += ["    else:", "        x = -1", "    reveal_type(x)"]
    elif kind == 1:
        lines += ["    x = %s" % vals[0], "    for it in items:", "        reveal_type(x)", "        if c1:", "            x = %s" % vals[1],
                  "        elif c2:", "            x = %s" % vals[2], "    reveal_type(x)"]
    elif kind == 2:
        lines += ["    try:", "        x = %s" % vals[0], "        y = %s" % vals[1], "    except ValueError:", "        x = %s" % vals[2],
                  "        y = %s" % vals[0], "    except KeyError:", "        x = %s" % vals[1], "        y = %s" % vals[2], "    finally:",
                  "        z = 0", "    reveal_type(x)", "    reveal_type(y)", "    print(z)"]
    elif kind == 3:
        lines += ["    x = %s" % vals[0], "    def inner() -> None:", "        nonlocal x", "        x = %s" % vals[1], "        if c1:",
                  "            x = %s" % vals[2], "        reveal_type(x)", "    inner()", "    reveal_type(x)"]
    else:
        lines += ["    x = %s" % vals[0], "    while c1:", "        if c2:", "            x = %s" % vals[1], "            continue",
                  "        elif c3:", "            x = %s" % vals[2], "            break", "        reveal_type(x)", "    else:",
                  "        x = %s" % vals[-1], "    reveal_type(x)"]
    lines.append("")
    return lines


def fam_match(r, n):
    lines = ["from typing import Union", "from vlib.data import Point, Color, Account", ""]
    u, _ = _union(r, r.randint(3, 5), ["int", "str", "bytes", "None", "Point", "Color", "Account", "float"])
    lines += ["def mt_%d(x: %s) -> None:" % (n, u), "    match x:"]
    cases = ["case 1 | 2 | 'a':", "case int() | str():", "case Point(x=0, y=yy):", "case None:", "case Color.RED | Color.BLUE:",
             "case Account(owner='o'):", "case str() as s:", "case [a, b]:", "case {'k': v}:", "case b'c' | 2.5:"]
    for c in r.sample(cases, r.randint(2, 5)):
        lines += ["        " + c, "            reveal_type(x)"]
    lines += ["        case _:", "            reveal_type(x)", ""]
    return lines


def fam_newtype_alias(r, n):
    lines = ["from typing import List, Dict", "from vlib.data import UserId, Token, IntOrStr, Json", ""]
    lines += ["def nt_%d(u: UserId, t: Token, ios: IntOrStr, j: Json) -> None:" % n]
    for e in r.sample(["reveal_type(u)", "reveal_type(UserId(1))", 'reveal_type(UserId("s"))', "reveal_type(ios)", "reveal_type(j)",
                       "a: UserId = 1", "b: int = u", "c: Token = u", "d: Json = [1, 'a', {'k': None}]", "e: Json = b'x'",
                       "f: IntOrStr = 1.5", "g: Dict[UserId, List[Token]] = {u: [t, 's']}"], r.randint(3, 6)):
        lines.append("    " + e)
    lines.append("")
    return lines


def fam_displays(r, n):
    lines = ["from typing import Any, List, Dict", ""]
    lines += ["def dp_%d(a: Any, xs: List[int], d: Dict[str, int]) -> None:" % n]
    for e in r.sample(["reveal_type([1, 'a', *xs])", "reveal_type({1: 'a', **d})", "reveal_type({1, 2, 3})", "reveal_type((1, *xs, 'z'))",
                       "reveal_type([x for x in xs if x])", "reveal_type({k: v for k, v in d.items()})", "reveal_type({x for x in xs})",
                       "reveal_type('%s %d' % (a, 1))", "reveal_type('%(k)s' % {'k': 1, 'extra': 2})", "reveal_type('{} {}'.format(1))",
                       "reveal_type(f'{a}{xs}')", "reveal_type(xs + ['a'])", "reveal_type(d | {1: 2})", "reveal_type([*xs, *d])",
                       "reveal_type({**d, 'k': b''})", "print('%d %s' % (1,))", "print('%(a)s %(b)s' % {'a': 1})",
                       "print('%(zeta)s %(alpha)s %(mid)s %(beta)s' % {'other': 1})", "print('%(k2)s %(k1)s %(k3)s' % {'k3': a})"], r.randint(3, 7)):
        lines.append("    " + e)
    lines.append("")
    return lines


def fam_callables(r, n):
    lines = ["from typing import Callable, Any", "from vlib.funcs import takes_callable, int_str_to_bool, int_to_bool, many, kwonly, varargs, no_annotations, identity", ""]
    lines += ["def cb_%d(f: Callable[[int], str], g: Callable[..., Any]) -> None:" % n]
    for e in r.sample(["takes_callable(int_str_to_bool)", "takes_callable(int_to_bool)", "takes_callable(many)", "takes_callable(kwonly)",
                       "takes_callable(varargs)", "takes_callable(no_annotations)", "takes_callable(f)", "takes_callable(g)",
                       "takes_callable(lambda a, b: True)", "takes_callable(lambda a: True)", "takes_callable(identity)",
                       "h: Callable[[int], int] = int_to_bool", "k: Callable[[str], bool] = int_to_bool"], r.randint(3, 6)):
        lines.append("    " + e)
    lines.append("")
    return lines


def _union_sets(code):
    """Union member sets (as {frozenset(member sources): first spelled order}) that occur nested
    inside a subscript of the program - the shapes that go through typing's alias cache."""
    import ast

    out = {}
    try:
        tree = ast.parse(code)
    except SyntaxError:
        return out

    def members(node):
        if isinstance(node, ast.Subscript):
            base = ast.unparse(node.value).split(".")[-1]
            if base == "Union":
                elts = node.slice.elts if isinstance(node.slice, ast.Tuple) else [node.slice]
                return [ast.unparse(e) for e in elts]
            if base == "Optional":
                return [ast.unparse(node.slice), "None"]
        if isinstance(node, ast.BinOp) and isinstance(node.op, ast.BitOr):
            left = members(node.left) or [ast.unparse(node.left)]
            right = members(node.right) or [ast.unparse(node.right)]
            return left + right
        return None

    for node in ast.walk(tree):
        if isinstance(node, ast.Subscript):
            for inner in ast.walk(node.slice):
                m = members(inner)
                if m and len(set(m)) > 1:
                    out.setdefault(frozenset(m), tuple(m))
    return out


def typing_cache_conflicts(programs_in_order):
    """pids (later in the given order) that spell a nested union's member set in another order
    than an earlier program: they would interact with it through typing's global cache."""
    first = {}
    dropped = set()
    for pid, code in programs_in_order:
        sets = _union_sets(code)
        bad = any(k in first and first[k] != v for k, v in sets.items())
        if bad:
            dropped.add(pid)
            continue
        for k, v in sets.items():
            first.setdefault(k, v)
    return dropped


def fam_local_defs(r, n):
    """Definitions with names from a SMALL pool and varying meaning: two unrelated programs define
    a `Node`, an `Item`, a `helper` ... differently (name-keyed or annotation-keyed caches)."""
    lines = ["import enum", "from dataclasses import dataclass", "from typing import Dict, Generic, List, NamedTuple, Optional, Protocol, TypeVar, Union",
             "from typing_extensions import TypedDict", ""]
    T = r.choice(["int", "str", "bytes", "float"])
    U = r.choice(["int", "str", "bytes", "float"])
    lit = TYPED_EXPR
    kind = r.below(8)
    if kind == 0:
        lines += ["class Node:",
                  "    def __init__(self, label: %s, children: Optional[List[\"Node\"]] = None, parent: \"Optional[Node]\" = None) -> None:" % T,
                  "        self.label = label", "        self.children = children or []", "        self.parent = parent", "",
                  "    def walk(self) -> List[\"Node\"]:", "        return [self]", "",
                  "def use_node_%d() -> None:" % n, "    a = Node(%s)" % lit[T], "    b = Node(%s, [a, a])" % lit[U], "    c = Node(%s, children=[a, b], parent=a)" % lit[T],
                  "    reveal_type(c.label)", "    reveal_type(b.walk())", "    reveal_type(c.children)", "    d = Node(%s, [%s])" % (lit[T], lit[U]), "    print(d)", ""]
    elif kind == 1:
        members = r.sample(["RED", "GREEN", "BLUE", "CYAN", "BLACK"], r.randint(2, 4))
        lines += ["class Color(enum.Enum):"] + ["    %s = %d" % (m, i + 1) for i, m in enumerate(members)] + ["",
                  "def use_color_%d(c: Color) -> None:" % n, "    if c is Color.%s:" % members[0], "        reveal_type(c)", "    else:", "        reveal_type(c)",
                  "    if c == Color.%s or c == Color.%s:" % (members[-1], members[0]), "        reveal_type(c)", "    print(Color.PURPLE)", ""]
    elif kind == 2:
        lines += ["@dataclass", "class Item:", "    name: %s" % T, "    count: %s = %s" % (U, lit[U]), "",
                  "def use_item_%d() -> None:" % n, "    a = Item(%s)" % lit[T], "    b = Item(%s, %s)" % (lit[U], lit[T]), "    reveal_type(a.count)", "    reveal_type(b)",
                  "    c = Item(name=%s, count=%s, extra=1)" % (lit[T], lit[U]), "    print(c)", ""]
    elif kind == 3:
        lines += ["class Shape(Protocol):", "    def area(self) -> %s: ..." % T, "", "class Square:", "    def area(self) -> %s:" % U, "        return %s" % lit[U], "",
                  "def use_shape_%d() -> None:" % n, "    s: Shape = Square()", "    reveal_type(s.area())", "    t: List[Shape] = [Square(), Square()]", "    print(t)", ""]
    elif kind == 4:
        lines += ["T = TypeVar(\"T\")", "", "class Box(Generic[T]):", "    def __init__(self, item: T) -> None:", "        self.item = item", "",
                  "    def get(self) -> T:", "        return self.item", "",
                  "def use_box_%d() -> None:" % n, "    reveal_type(Box(%s).get())" % lit[T], "    b: Box[%s] = Box(%s)" % (T, lit[U]), "    reveal_type(b)",
                  "    c: Dict[str, Box[%s]] = {\"k\": Box(%s)}" % (U, lit[T]), "    print(c)", ""]
    elif kind == 5:
        lines += ["class Record(NamedTuple):", "    key: %s" % T, "    value: %s = %s" % (U, lit[U]), "",
                  "class Payload(TypedDict):", "    key: %s" % T, "    value: %s" % U, "",
                  "def use_record_%d() -> None:" % n, "    r1 = Record(%s)" % lit[T], "    r2 = Record(%s, %s)" % (lit[U], lit[T]), "    reveal_type(r1.value)", "    reveal_type(r2[0])",
                  "    p: Payload = {\"key\": %s, \"value\": %s}" % (lit[U], lit[T]), "    print(p)", ""]
    elif kind == 6:
        lines += ["def helper(a: %s, b: %s = %s) -> %s:" % (T, U, lit[U], T), "    return a", "",
                  "def process(items: List[%s], flag: bool = False) -> Dict[str, %s]:" % (T, U), "    return {}", "",
                  "def caller_%d() -> None:" % n, "    reveal_type(helper(%s))" % lit[T], "    helper(%s, %s)" % (lit[U], lit[T]), "    reveal_type(process([%s]))" % lit[T],
                  "    process([%s], flag=1, extra=2)" % lit[U], ""]
    else:
        lines += ["class Base:", "    def run(self, x: %s) -> %s:" % (T, U), "        return %s" % lit[U], "", "class Child(Base):", "    def run(self, x: %s) -> %s:" % (U, T),
                  "        return %s" % lit[T], "", "def use_child_%d(o: Union[Base, Child]) -> None:" % n, "    reveal_type(o.run(%s))" % lit[T], "    reveal_type(Child().run(%s))" % lit[U], ""]
    return lines


def fam_class_attrs(r, n):
    """Several reads of the same never-set attribute, several diagnostics with equal keys."""
    name = r.choice(["Holder", "Widget", "Panel"])
    attrs = r.sample(["colour", "size", "weight", "depth"], r.randint(1, 3))
    lines = ["class %s:" % name, "    def __init__(self) -> None:", "        self.present = %d" % n]
    for a in ["colour", "size", "weight", "depth"]:
        if r.chance(0.25):
            lines.append("        self.%s = %s" % (a, r.choice(["1", "\"heavy\"", "[1]", "None", "2.5"])))
    lines.append("")
    for k in range(r.randint(2, 4)):
        lines += ["    def m%d(self) -> object:" % k]
        for _ in range(r.randint(1, 3)):
            a = r.choice(attrs)
            form = r.below(3)
            if form == 0:
                lines.append("        print(self.%s)" % a)
            elif form == 1:
                lines += ["        for i in range(2):", "            print(self.%s, self.%s)" % (a, r.choice(attrs))]
            else:
                lines.append("        x%d = [self.%s, self.present, self.%s]" % (r.below(50), a, r.choice(attrs)))
        lines += ["        return self.present", ""]
    return lines


def fam_dynamic_attrs(r, n):
    """Classes whose attributes are set dynamically (setattr with a computed name): the end-of-run
    attribute pass exempts them - and must keep judging every other class of the invocation."""
    kind = r.below(4)
    cls = r.choice(["Settings", "Options", "Registry", "Bag", "ZConfig", "AaState"]) + "_%d" % n
    if kind == 0:
        return ["from typing import Dict", "", "class %s:" % cls, "    def load(self, pairs: Dict[str, object]) -> None:", "        for key, value in pairs.items():", "            setattr(self, key, value)",
                "    def show(self) -> None:", "        print(self.verbose_%d, self.%s)" % (n, r.choice(["colour", "size", "weight"])), ""]
    if kind == 1:
        return ["import argparse", "from typing import List", "", "def fill_%d(ns: argparse.Namespace, names: List[str]) -> None:" % n, "    for nm in names:", "        setattr(ns, nm, %d)" % n,
                "    print(ns.verbose, ns.%s)" % r.choice(["colour", "size", "weight"]), ""]
    if kind == 2:
        return ["class %s:" % cls, "    def __init__(self, **kwargs: object) -> None:", "        for key in kwargs:", "            setattr(self, \"opt_\" + key, kwargs[key])", "",
                "class Sub%s(%s):" % (cls, cls), "    def show(self) -> None:", "        print(self.opt_a, self.%s)" % r.choice(["colour", "depth"]), ""]
    # a victim of its own: reads of attributes nobody sets, no dynamic setter anywhere in this file
    own = r.choice(["Report", "Invoice", "MReader", "ZzLast"]) + "_%d" % n
    a, b = r.sample(["titel", "colour", "size", "weight", "depth", "lenght"], 2)
    return ["class %s:" % own, "    def __init__(self) -> None:", "        self.title = \"t%d\"" % n, "    def render(self) -> str:", "        print(self.%s)" % a, "        return self.title + str(self.%s)" % b, ""]


def fam_local_multi(r, n):
    """Several user-defined classes (address-hashed objects) in one construct: isinstance tuples,
    except tuples, unions, constrained type variables, multiple bases."""
    names = ["Alpha", "Beta", "Gamma", "Delta"]
    lines = ["from typing import TypeVar, Union", ""]
    for i, nm in enumerate(names):
        base = "(%s)" % names[r.below(i)] if i and r.chance(0.3) else ""
        lines += ["class %s%s:" % (nm, base), "    def tag_%s(self) -> int:" % nm.lower(), "        return %d" % i, ""]
    errs = ["ErrA", "ErrB", "ErrC"]
    for e in errs:
        lines += ["class %s(Exception):" % e, "    pass", ""]
    k = r.randint(2, 4)
    tup = r.sample(names, k)
    u = sorted(r.sample(names, r.randint(2, 4)))
    lines += ["def narrow_%d(x: object, y: Union[%s]) -> None:" % (n, ", ".join(u))]
    body = []
    opts = r.sample(range(7), r.randint(2, 5))
    for o in opts:
        if o == 0:
            body += ["if isinstance(x, (%s)):" % ", ".join(tup), "    reveal_type(x)", "    x.nothing_here"]
        elif o == 1:
            t2 = r.sample(u, r.randint(1, len(u)))
            body += ["if isinstance(y, (%s,)):" % ", ".join(t2), "    reveal_type(y)", "else:", "    reveal_type(y)"]
        elif o == 2:
            body += ["if isinstance(x, %s) or isinstance(x, %s) or isinstance(x, %s):" % tuple(r.sample(names, 3)), "    reveal_type(x)"]
        elif o == 3:
            es = r.sample(errs, r.randint(2, 3))
            body += ["try:", "    print(x)", "except (%s) as exc:" % ", ".join(es), "    reveal_type(exc)"]
        elif o == 4:
            body += ["reveal_type(y)", "y.tag_nonexistent"]
        elif o == 5:
            body += ["if isinstance(x, (%s, (%s, %s))):" % tuple(r.sample(names, 3)), "    reveal_type(x)"]
        else:
            body += ["if type(x) in (%s):" % ", ".join(r.sample(names, 3)), "    reveal_type(x)"]
    lines += _indent4(body) + [""]
    if r.chance(0.6):
        cons = r.sample(names, r.randint(2, 3))
        lines += ["TV_%d = TypeVar(\"TV_%d\", %s)" % (n, n, ", ".join(cons)), "", "def pick_%d(t: TV_%d) -> TV_%d:" % (n, n, n), "    return t", "",
                  "def use_pick_%d() -> None:" % n, "    reveal_type(pick_%d(%s()))" % (n, cons[0]), "    pick_%d(1)" % n, ""]
    if r.chance(0.5):
        b = r.sample(["ErrA", "ErrB", "ErrC"], 2)
        lines += ["class Multi_%d(%s):" % (n, ", ".join(b)), "    pass", "", "def use_multi_%d(m: Multi_%d) -> None:" % (n, n), "    reveal_type(m)", "    m.absent", ""]
    return lines


def _indent4(lines):
    return ["    " + l for l in lines]


def fam_equal_literals(r, n):
    """Constants that compare (and hash) equal across types: 0 == False == 0.0, 1 == True == 1.0."""
    zero = r.choice(["0", "False", "0.0"])
    one = r.choice(["1", "True", "1.0"])
    two = r.choice(["2", "2.0"])
    lines = ["from typing import Dict, Tuple", "", "def takes_bool_%d(b: bool) -> None:" % n, "    pass", "", "def takes_int_%d(i: int) -> None:" % n, "    pass", "",
             "def eq_%d(i: int) -> None:" % n]
    body = []
    for o in r.sample(range(9), r.randint(3, 6)):
        if o == 0:
            body += ["lo, hi = (%s, %s)" % (zero, one), "reveal_type(lo)", "reveal_type(hi)", "takes_bool_%d(hi)" % n]
        elif o == 1:
            body += ["reveal_type((%s, %s, %s)[1])" % (zero, one, two)]
        elif o == 2:
            body += ["d = {%s: \"a\", %s: \"b\"}" % (zero, two), "reveal_type(d)", "reveal_type(d[%s])" % zero]
        elif o == 3:
            body += ["if i in (%s, %s):" % (zero, one), "    reveal_type(i)"]
        elif o == 4:
            body += ["reveal_type(\"%%s-%%s\" %% (%s, %s))" % (one, two)]
        elif o == 5:
            body += ["a, *rest = (%s, %s, %s)" % (one, zero, two), "reveal_type(a)", "reveal_type(rest)", "takes_int_%d(a)" % n]
        elif o == 6:
            body += ["for v in (%s, %s):" % (one, two), "    reveal_type(v)", "    takes_bool_%d(v)" % n]
        elif o == 7:
            body += ["reveal_type(%s + %s)" % (one, two), "reveal_type([%s, %s])" % (zero, one), "reveal_type({%s, %s})" % (one, two)]
        else:
            body += ["t: Tuple[bool, int] = (%s, %s)" % (one, zero), "reveal_type(t)", "reveal_type(bool(%s) and %s)" % (zero, one)]
    lines += _indent4(body) + [""]
    return lines


def fam_call_order(r, n):
    """Functions without return annotation called before their definition, recursion: what a
    second check of the same module would see if anything about the first check were remembered."""
    lit = r.choice(["\"x\"", "1", "[1]", "(1, \"a\")", "None", "{\"k\": 1}", "b\"y\"", "2.5"])
    lit2 = r.choice(["\"y\"", "2", "[\"s\"]", "3.5"])
    kind = r.below(4)
    lines = []
    if kind == 0:
        lines += ["def caller_%d() -> int:" % n, "    return helper_%d()" % n, "", "def helper_%d():" % n, "    return %s" % lit, "",
                  "def after_%d() -> None:" % n, "    reveal_type(helper_%d())" % n, ""]
    elif kind == 1:
        lines += ["def early_%d() -> None:" % n, "    reveal_type(rec_%d(2))" % n, "    reveal_type(late_%d(1))" % n, "",
                  "def rec_%d(k):" % n, "    if k:", "        return rec_%d(k - 1)" % n, "    return %s" % lit, "",
                  "def late_%d(v):" % n, "    if v:", "        return %s" % lit, "    return %s" % lit2, ""]
    elif kind == 2:
        lines += ["from asynq import asynq", "", "@asynq()", "def acaller_%d():" % n, "    val = yield ahelper_%d.asynq()" % n, "    reveal_type(val)", "    return val", "",
                  "@asynq()", "def ahelper_%d():" % n, "    return %s" % lit, ""]
    else:
        lines += ["class Early_%d:" % n, "    def first(self) -> str:", "        return self.second()", "", "    def second(self):", "        return %s" % lit, "",
                  "def use_early_%d(e: Early_%d) -> None:" % (n, n), "    reveal_type(e.second())", "    reveal_type(make_%d().first())" % n, "",
                  "def make_%d():" % n, "    return Early_%d()" % n, ""]
    return lines


def fam_stdlib(r, n):
    """The same standard-library / typeshed functions used by many programs with different
    argument types and in different ways (call, bound method, alias, from-import alias)."""
    lines = ["import collections", "import functools", "import itertools", "import os.path", "import re",
             "from collections import OrderedDict, defaultdict", "from os.path import join as pjoin", "from typing import Any, Dict, List, Optional, Sequence, Tuple", ""]
    T = r.choice(["int", "str", "bytes", "float"])
    U = r.choice(["int", "str", "bytes", "float"])
    lit = TYPED_EXPR
    lines += ["def std_%d(a: %s, b: %s, xs: List[%s], d: Dict[str, %s], anyv: Any, seq: Sequence[%s]) -> None:" % (n, T, U, T, U, U)]
    pool = [
        "reveal_type(os.path.join(a, b))", "reveal_type(pjoin(%s, a))" % lit["str"], "reveal_type(d.get(a))", "reveal_type(d.get(%s, b))" % lit["str"],
        "reveal_type(%s.join(xs))" % lit["str"], "reveal_type(sorted(xs))", "reveal_type(sorted(seq, key=len))", "reveal_type(max(a, b))", "reveal_type(max(xs))",
        "reveal_type(min(xs, default=b))", "reveal_type(re.compile(a))", "reveal_type(re.match(%s, b))" % lit["str"], "xs.append(b)", "reveal_type(xs + [b])",
        "reveal_type(list(itertools.chain(xs, seq)))", "reveal_type(OrderedDict([(a, b)]))", "reveal_type(defaultdict(list, {a: [b]}))",
        "reveal_type(functools.partial(max, a)(b))", "reveal_type(a + b)", "reveal_type(a.__add__(b))", "reveal_type(len(a))", "reveal_type(abs(a))",
        "reveal_type(dict(zip(xs, seq)))", "reveal_type(enumerate(xs))", "reveal_type(isinstance(a, (int, str)))", "reveal_type(str(a).split(b))",
        "reveal_type(sum(xs))", "reveal_type(sum(xs, b))", "reveal_type(divmod(a, b))", "reveal_type(round(a))", "reveal_type(int(a))", "reveal_type(float(b))",
        "reveal_type(bytes(a))", "reveal_type(tuple(xs))", "reveal_type({k: v for k, v in zip(xs, seq)})", "reveal_type(xs.index(b))", "reveal_type(d.setdefault(a, b))",
        "reveal_type(d.pop(%s))" % lit["str"], "reveal_type(collections.Counter(xs).most_common(1))", "f = xs.append", "reveal_type(xs.count)", "m = d.get; reveal_type(m(a))",
        "reveal_type(getattr(a, %s))" % lit["str"], "reveal_type(hash(a) + b)", "reveal_type(open(a))", "reveal_type(print(a, sep=b))",
    ]
    # results of stdlib calls handed to parameters typed with typeshed-only bases / protocols, and the
    # same calls as bare expression statements (a different path through the visitor)
    pool2 = [
        "out = open(a, \"w\"); emit_%d(out)" % n, "emit_%d(io.StringIO())" % n, "emit_%d(open(a))" % n, "open(os.path.join(a, b), \"w\")", "io.StringIO()", "io.BytesIO()",
        "binary_%d(io.BytesIO())" % n, "binary_%d(open(a, \"rb\"))" % n, "sized_%d(re.compile(a))" % n, "sized_%d(xs)" % n, "sized_%d(d)" % n, "sized_%d(a)" % n,
        "iter_%d(xs)" % n, "iter_%d(d)" % n, "iter_%d(open(a))" % n, "iter_%d(a)" % n, "num_%d(a)" % n, "num_%d(b)" % n, "num_%d(xs)" % n, "hash_%d(xs)" % n, "hash_%d(a)" % n,
        "mapping_%d(d)" % n, "mapping_%d(OrderedDict())" % n, "mapping_%d(collections.Counter(xs))" % n, "mapping_%d(xs)" % n, "re.compile(a)", "sorted(xs)", "d.get(a)",
        "collections.Counter(xs)", "itertools.chain(xs)", "seqs_%d(xs)" % n, "seqs_%d(seq)" % n, "seqs_%d(a)" % n, "seqs_%d(collections.deque(xs))" % n,
    ]
    for e in r.sample(pool, r.randint(3, 7)) + r.sample(pool2, r.randint(2, 6)):
        lines.append("    " + e)
    lines.append("")
    helpers = ["import io", "from typing import BinaryIO, Hashable, Iterable, Mapping, Sized, SupportsInt, TextIO", "",
               "def emit_%d(out: TextIO) -> None:" % n, "    pass", "", "def binary_%d(out: BinaryIO) -> None:" % n, "    pass", "", "def sized_%d(s: Sized) -> None:" % n, "    pass", "",
               "def iter_%d(it: Iterable[str]) -> None:" % n, "    pass", "", "def num_%d(x: SupportsInt) -> None:" % n, "    pass", "", "def hash_%d(h: Hashable) -> None:" % n, "    pass", "",
               "def mapping_%d(m: Mapping[str, object]) -> None:" % n, "    pass", "", "def seqs_%d(s: Sequence[object]) -> None:" % n, "    pass", ""]
    return helpers + lines


def fam_patma(r, n):
    """match statements: mapping patterns over dict displays with literal / non-literal / ** entries,
    sequence patterns with stars, class patterns, or-patterns, guards, captures."""
    lines = ["from typing import Any, Dict, List, Optional, Tuple, Union", "from typing_extensions import NotRequired, TypedDict", "from vlib.data import Color, Point, Account, Movie", ""]
    lines += ["def pm_%d(a: str, b: str, k: int, extra: Dict[str, bytes], m: Movie, seq: List[Union[bytes, float]], t: Tuple[int, str, bytes], o: Optional[Point]) -> None:" % n]
    body = []
    for choice in r.sample(range(10), r.randint(2, 5)):
        if choice == 0:
            vals = r.sample(["\"one\"", "2", "3.0", "b\"four\"", "None", "[5]"], 3)
            body += ["match {a: %s, b: %s, \"lit\": %s}:" % tuple(vals), "    case {\"lit\": v1}:", "        reveal_type(v1)", "    case {\"other\": v2, **rest}:", "        reveal_type(v2)", "        reveal_type(rest)"]
        elif choice == 1:
            body += ["match {\"k\": None, **extra, b: \"two\", a: %d}:" % r.randint(1, 9), "    case {\"k\": w1}:", "        reveal_type(w1)", "    case {\"z\": w2}:", "        reveal_type(w2)"]
        elif choice == 2:
            body += ["match m:", "    case {\"title\": tt, \"year\": yy}:", "        reveal_type(tt)", "        reveal_type(yy)", "    case {\"bogus\": bb}:", "        reveal_type(bb)"]
        elif choice == 3:
            body += ["match seq:", "    case [first, *middle, last]:", "        reveal_type(first)", "        reveal_type(middle)", "    case [only]:", "        reveal_type(only)", "    case []:", "        reveal_type(seq)"]
        elif choice == 4:
            body += ["match t:", "    case (x1, \"s\", y1):", "        reveal_type(x1)", "        reveal_type(y1)", "    case (x2, *others):", "        reveal_type(others)"]
        elif choice == 5:
            body += ["match o:", "    case Point(x=0, y=py):", "        reveal_type(py)", "    case Point(x=px) if px > k:", "        reveal_type(px)", "    case None:", "        reveal_type(o)", "    case _:", "        reveal_type(o)"]
        elif choice == 6:
            lits = r.sample(["\"r\"", "\"w\"", "\"a\"", "1", "2.5", "b\"x\"", "None", "True"], r.randint(3, 5))
            body += ["match a:", "    case %s:" % " | ".join(lits), "        reveal_type(a)", "    case str() as s1:", "        reveal_type(s1)"]
        elif choice == 7:
            body += ["match {a: 1, b: \"x\", k: b\"y\"}:", "    case {1: one, **others2}:", "        reveal_type(one)", "        reveal_type(others2)"]
        elif choice == 8:
            body += ["match [a, k, b\"z\"]:", "    case [str() as s2, int() | float() as num, *tail]:", "        reveal_type(s2)", "        reveal_type(num)", "        reveal_type(tail)"]
        else:
            body += ["match (k, a):", "    case (1, \"a\") | (2, \"b\") | (3, _):", "        reveal_type(k)", "    case (kk, aa) if kk:", "        reveal_type(kk)", "        reveal_type(aa)"]
    lines += _indent4(body) + [""]
    return lines


def fam_alias695(r, n):
    """PEP 695 / TypeAliasType generic aliases, subscripted in parameter annotations with hashable
    and unhashable (Annotated with dataclass metadata) arguments."""
    lines = ["from dataclasses import dataclass", "from typing import Annotated, Dict, List", "from typing_extensions import TypeAliasType, TypeVar", "",
             "@dataclass", "class Meta:", "    unit: str", "", "AT = TypeVar(\"AT\")", ""]
    shapes = {"Box": "list[T]", "Pair": "tuple[T, T]", "Table": "dict[str, T]", "Maybe": "T | None", "Nest": "list[tuple[T, int]]"}
    names = r.sample(sorted(shapes), r.randint(2, 3))
    for nm in names:
        if r.chance(0.7):
            lines += ["type %s[T] = %s" % (nm, shapes[nm]), ""]
        else:
            lines += ["%s = TypeAliasType(\"%s\", %s, type_params=(AT,))" % (nm, nm, shapes[nm].replace("T", "AT")), ""]
    args = ["int", "str", "Annotated[int, Meta(\"kg\")]", "Annotated[str, Meta(\"m\")]", "Annotated[bytes, \"plain\"]", "list[int]"]
    for k, nm in enumerate(names):
        a = r.choice(args)
        lines += ["def use_%s_%d_%d(v: %s[%s], w: %s[%s]) -> None:" % (nm.lower(), n, k, nm, a, nm, r.choice(args)), "    reveal_type(v)", "    reveal_type(w)"]
        if nm in ("Box", "Nest"):
            lines += ["    reveal_type(v[0])", "    v.append(1)"]
        elif nm == "Pair":
            lines += ["    reveal_type(v[0] + v[1])"]
        elif nm == "Table":
            lines += ["    reveal_type(v[\"k\"])", "    reveal_type(v.get(1))"]
        else:
            lines += ["    if v is not None:", "        reveal_type(v)"]
        lines.append("")
    return lines


def fam_inheritance(r, n):
    """Multiple inheritance, diamonds, several generic bases, builtin subclasses, ABCs, metaclasses."""
    lines = ["import abc", "import collections.abc", "from typing import Dict, Generic, Iterator, List, Mapping, Sequence, Sized, TypeVar", "",
             "KT = TypeVar(\"KT\")", "VT = TypeVar(\"VT\")", ""]
    T = r.choice(["int", "str", "bytes"])
    U = r.choice(["int", "str", "bytes"])
    lit = TYPED_EXPR
    kind = r.below(7)
    if kind == 0:
        order = r.sample(["Left", "Right"], 2)
        lines += ["class Top:", "    def who(self) -> %s:" % T, "        return %s" % lit[T], "    shared = %s" % lit[T], "",
                  "class Left(Top):", "    def who(self) -> %s:" % T, "        return %s" % lit[T], "    only_left = 1", "",
                  "class Right(Top):", "    shared = %s" % lit[U], "    only_right = \"r\"", "",
                  "class Bottom(%s):" % ", ".join(order), "    pass", "",
                  "def dia_%d(b: Bottom) -> None:" % n, "    reveal_type(b.who())", "    reveal_type(b.shared)", "    reveal_type(b.only_left)", "    reveal_type(b.only_right)", "    b.nothing", ""]
    elif kind == 1:
        lines += ["class Registry(Mapping[str, %s], Sized):" % T, "    def __getitem__(self, key: str) -> %s:" % T, "        return %s" % lit[T], "    def __iter__(self) -> Iterator[str]:", "        return iter(())",
                  "    def __len__(self) -> int:", "        return 0", "",
                  "def reg_%d(g: Registry) -> None:" % n, "    reveal_type(g[\"k\"])", "    reveal_type(g.get(\"k\"))", "    reveal_type(list(g.items()))", "    reveal_type(len(g))", "    g[1]",
                  "    m: Mapping[str, %s] = g" % U, "    s: Sized = g", "    print(m, s)", ""]
    elif kind == 2:
        lines += ["class Pairs(Generic[KT, VT], Dict[KT, List[VT]]):", "    def add(self, k: KT, v: VT) -> None:", "        self.setdefault(k, []).append(v)", "",
                  "def pairs_%d(p: Pairs[%s, %s]) -> None:" % (n, T, U), "    reveal_type(p)", "    reveal_type(p[%s])" % lit[T], "    p.add(%s, %s)" % (lit[U], lit[T]), "    reveal_type(p.get(%s))" % lit[T], ""]
    elif kind == 3:
        lines += ["class IntList(List[%s]):" % T, "    def total(self) -> %s:" % T, "        return self[0]", "", "class Names(dict):", "    pass", "",
                  "def sub_%d(xs: IntList, d: Names) -> None:" % n, "    reveal_type(xs[0])", "    reveal_type(xs.total())", "    xs.append(%s)" % lit[U], "    reveal_type(d[\"k\"])", "    reveal_type(sorted(xs))", "    seq: Sequence[%s] = xs" % U, "    print(seq)", ""]
    elif kind == 4:
        lines += ["class Shape(abc.ABC):", "    @abc.abstractmethod", "    def area(self) -> %s: ..." % T, "    def describe(self) -> str:", "        return \"shape\"", "",
                  "class Named:", "    name: %s = %s" % (U, lit[U]), "    def describe(self) -> int:", "        return 1", "",
                  "class Square(%s):" % ", ".join(r.sample(["Shape", "Named"], 2)), "    def area(self) -> %s:" % T, "        return %s" % lit[T], "",
                  "def sq_%d(s: Square) -> None:" % n, "    reveal_type(s.area())", "    reveal_type(s.describe())", "    reveal_type(s.name)", "    Shape()", ""]
    elif kind == 5:
        lines += ["class Meta(type):", "    def __call__(cls, *args: object, **kwargs: object):", "        return super().__call__(*args, **kwargs)", "    registry: Dict[str, type] = {}", "",
                  "class Plugin(metaclass=Meta):", "    def __init_subclass__(cls, tag: str = \"x\", **kwargs: object) -> None:", "        super().__init_subclass__(**kwargs)", "    def run(self, x: %s) -> %s:" % (T, U), "        return %s" % lit[U], "",
                  "class Fast(Plugin, tag=\"fast\"):", "    pass", "",
                  "def plug_%d(p: Fast) -> None:" % n, "    reveal_type(p.run(%s))" % lit[T], "    p.run(%s, 1)" % lit[U], "    reveal_type(Fast.registry)", "    reveal_type(Fast())", ""]
    else:
        lines += ["class A1:", "    def m(self) -> %s:" % T, "        return %s" % lit[T], "", "class A2:", "    def m(self) -> %s:" % U, "        return %s" % lit[U], "", "class A3:", "    def m(self) -> bytes:", "        return b\"\"", "",
                  "class Multi(%s):" % ", ".join(r.sample(["A1", "A2", "A3"], 3)), "    def n(self) -> None:", "        reveal_type(super().m())", "",
                  "def multi_%d(x: Multi) -> None:" % n, "    reveal_type(x.m())", "    reveal_type(Multi.__mro__)", "    y: A2 = x", "    z: int = x", "    print(y, z)", ""]
    return lines


def fam_hostile(r, n):
    """Objects of the checked module that misbehave under introspection, annotations that raise,
    deep nesting: the error / catch-all paths of the checker."""
    lines = ["from typing import Any, Dict, List", ""]
    kind = r.below(6)
    if kind == 0:
        what = r.choice(["__repr__", "__eq__", "__hash__", "__bool__", "__getattr__", "__len__"])
        sig = {"__repr__": "(self) -> str", "__eq__": "(self, other: object) -> bool", "__hash__": "(self) -> int", "__bool__": "(self) -> bool", "__getattr__": "(self, name: str) -> Any", "__len__": "(self) -> int"}[what]
        lines += ["class Grumpy:", "    def %s%s:" % (what, sig), "        raise RuntimeError(\"no %d\")" % n, "", "GRUMPY = Grumpy()", "",
                  "def host_%d(x: int = 0) -> None:" % n, "    reveal_type(GRUMPY)", "    print(GRUMPY, x)", "    y = [GRUMPY, 1]", "    reveal_type(y)", "    if GRUMPY is None:", "        print(x)", "    d = {\"k\": GRUMPY}", "    reveal_type(d)", ""]
    elif kind == 1:
        lines += ["class Lazy:", "    def __class_getitem__(cls, item: object) -> object:", "        raise TypeError(\"not subscriptable %d\")" % n, "",
                  "def host_%d(a: \"Lazy[int]\", b: \"NoSuchName_%d\", c: \"1 +\") -> None:" % (n, n), "    reveal_type(a)", "    reveal_type(b)", "    reveal_type(c)", ""]
    elif kind == 2:
        depth = r.randint(30, 120)
        lines += ["DEEP = %s1%s" % ("[" * depth, "]" * depth), "",
                  "def host_%d() -> None:" % n, "    reveal_type(DEEP)", "    x = %s0%s" % ("(" * 40, ")" * 40), "    reveal_type(x)", "    y = %s" % " + ".join(["1"] * r.randint(50, 200)), "    reveal_type(y)", ""]
    elif kind == 3 and r.chance(0.5):
        # an expression nested deeper than the interpreter's recursion limit allows the checker to
        # follow: RecursionError is raised (and caught as internal_error) at whatever point the
        # stack happens to run out - inside protocol checks, overload resolution, ...
        terms = r.randint(300, 460)
        conv = r.choice(["int", "float", "int", "bytes", "memoryview", "complex"])
        lines += ["# exhausts the recursion limit; where the checker gives up depends on cache warmth",
                  "VERIF_PREDECESSOR_ONLY = True",
                  "def host_%d(rec: Dict[str, str], s: str, xs: List[str]) -> None:" % n,
                  "    total = %s" % " + ".join("%s(rec[\"f%d\"])" % (conv, i) for i in range(terms)),
                  "    reveal_type(total)", "    flat = %s" % " or ".join("s.startswith(\"%d\")" % i for i in range(r.randint(200, 400))), "    reveal_type(flat)", ""]
    elif kind == 3:
        lines += ["class Prop:", "    @property", "    def boom(self) -> int:", "        raise ValueError(\"boom %d\")" % n, "", "PROP = Prop()", "",
                  "def host_%d() -> None:" % n, "    reveal_type(PROP.boom)", "    reveal_type(PROP.missing)", "    PROP.boom = 1", ""]
    elif kind == 4:
        lines += ["def host_%d(v: Any, items: List[Any]) -> None:" % n, "    try:", "        raise ValueError(v)", "    except (ValueError, KeyError) as e:", "        reveal_type(e)", "    except* TypeError as eg:", "        pass", ""]
        # `except*` mixed with `except` is a SyntaxError: keep the program valid
        lines = [l for l in lines if "except*" not in l and l.strip() != "pass"] + [""]
    elif kind == 5 and r.chance(0.5):
        what = r.choice(["__getattr__", "__eq__", "__hash__", "__repr__"])
        sig = {"__repr__": "(self) -> str", "__eq__": "(self, other: object) -> bool", "__hash__": "(self) -> int", "__getattr__": "(self, name: str) -> Any"}[what]
        lines += ["from typing import overload", "", "class Evil:", "    def %s%s:" % (what, sig), "        raise KeyError(\"evil %d\")" % n, "", "EVIL = Evil()", "",
                  "@overload", "def evil_pick_%d(x: EVIL) -> int: ..." % n, "@overload", "def evil_pick_%d(x: str) -> str: ..." % n, "def evil_pick_%d(x: object) -> object:" % n, "    return x", "",
                  "def evil_default_%d(x: int = EVIL, *, y: EVIL = 1) -> EVIL:" % n, "    return x", "",
                  "def host_%d() -> None:" % n, "    reveal_type(evil_pick_%d(1))" % n, "    reveal_type(evil_pick_%d(\"a\"))" % n, "    reveal_type(evil_default_%d())" % n, "    evil_default_%d(\"s\", y=2)" % n, ""]
    else:
        lines += ["import functools", "", "@functools.lru_cache(maxsize=None)", "def cached_%d(x: int) -> int:" % n, "    return x", "", "class Weird:", "    __slots__ = (\"a\",)", "    def __init__(self) -> None:", "        self.a = %d" % n, "",
                  "def host_%d(w: Weird) -> None:" % n, "    reveal_type(cached_%d(1))" % n, "    cached_%d(\"s\")" % n, "    reveal_type(w.a)", "    w.b = 2", "    reveal_type(cached_%d.cache_info())" % n, ""]
    return lines


def fam_local_overloads(r, n):
    """Overloads and evaluated functions DEFINED by the program itself (runtime registries keyed by
    qualified name), same function names in every program."""
    T = r.choice(["int", "str", "bytes", "float"])
    U = r.choice(["int", "str", "bytes", "float"])
    lit = TYPED_EXPR
    kind = r.below(3)
    if kind == 0:
        lines = ["from typing import Union, overload", "",
                 "@overload", "def double(x: %s) -> %s: ..." % (T, T), "@overload", "def double(x: %s, times: int = ...) -> List_%d: ..." % (U, n),
                 "def double(x: object, times: int = 2) -> object:", "    return x", ""]
        lines = ["from typing import List", "List_%d = List[%s]" % (n, U), ""] + lines
    elif kind == 1:
        lines = ["from typing import Union", "from pyanalyze.extensions import overload", "",
                 "@overload", "def double(x: %s) -> %s:" % (T, T), "    raise NotImplementedError", "", "@overload", "def double(x: %s) -> %s:" % (U, U), "    raise NotImplementedError", "",
                 "def double(x: object) -> object:", "    return x", ""]
    else:
        lines = ["from typing import Union", "from pyanalyze.extensions import evaluated, is_of_type, show_error", "",
                 "@evaluated", "def double(x: object):", "    if is_of_type(x, %s):" % T, "        return %s" % T, "    elif is_of_type(x, %s):" % U, "        show_error(\"no %s please\", argument=x)" % U, "        return %s" % U,
                 "    else:", "        return None", ""]
    lines += ["def use_double_%d(u: Union[%s, %s], v: object) -> None:" % (n, T, U) if T != U else "def use_double_%d(u: %s, v: object) -> None:" % (n, T),
              "    reveal_type(double(%s))" % lit[T], "    reveal_type(double(%s))" % lit[U], "    reveal_type(double(u))", "    reveal_type(double(v))", "    double(b\"raw\", 3, 4)", ""]
    return lines


FAMILIES = {
    "local_overloads": fam_local_overloads,
    "inheritance": fam_inheritance,
    "hostile": fam_hostile,
    "alias695": fam_alias695,
    "patma": fam_patma,
    "stdlib": fam_stdlib,
    "local_multi": fam_local_multi,
    "equal_literals": fam_equal_literals,
    "call_order": fam_call_order,
    "local_defs": fam_local_defs,
    "class_attrs": fam_class_attrs,
    "dynamic_attrs": fam_dynamic_attrs,
    "generic_protocol": fam_generic_protocol,
    "recursive_protocol": fam_recursive_protocol,
    "overloads": fam_overloads,
    "records": fam_records,
    "or_chain": fam_or_chain,
    "keywords": fam_keywords,
    "typevars": fam_typevars,
    "enums": fam_enums,
    "union_attrs": fam_union_attrs,
    "overrides": fam_overrides,
    "asynq": fam_asynq,
    "evaluated": fam_evaluated,
    "unused": fam_unused,
    "branches": fam_branches,
    "match": fam_match,
    "newtype_alias": fam_newtype_alias,
    "displays": fam_displays,
    "callables": fam_callables,
}


def _assemble(blocks):
    """Hoist imports to the top (deduplicated, in first-seen order)."""
    imports, body = [], []
    for block in blocks:
        for line in block:
            if line.startswith(("from ", "import ")):
                if line not in imports:
                    imports.append(line)
            else:
                body.append(line)
    # `from __future__`-free; keep a blank line between imports and body
    text = "\n".join(imports + ["", ""] + body)
    while "\n\n\n\n" in text:
        text = text.replace("\n\n\n\n", "\n\n\n")
    return text.rstrip("\n") + "\n"


def c16_module(seed, index):
    """A module from the C16 generator (many kinds of diagnostics, asynq/await constructs, the same
    function and helper names in every module) used as a C10 program."""
    from ..c16 import generator as g16

    gen = g16.Gen(seed, 1000003 + index, {"plain_text": True, "known_defect_atoms": False, "p_first_line": 0.1})
    files, meta = gen.tree()
    name = sorted(files)[0]
    return files[name]


def generate_program(seed, index, families=None):
    """One generated program: 1-3 blocks; returns (pid, code, family_names)."""
    r = Rng(seed, "c10", "gen", index)
    if r.chance(0.12):
        code = c16_module(seed, index)
        if not any(ord(ch) > 127 or ch in "\x0c\x0b\x1c\x85" for ch in code):
            return "gen:c16tree:%s" % hashlib.sha256(code.encode()).hexdigest()[:12], code, ["c16tree"]
    names = sorted(families or FAMILIES)
    k = 1 if r.chance(0.55) else (2 if r.chance(0.7) else 3)
    # bias: blocks of one program often come from the same family (same cache entries,
    # different context inside one file)
    fams = []
    base = r.choice(names)
    for _ in range(k):
        fams.append(base if r.chance(0.5) else r.choice(names))
    blocks = [FAMILIES[f](r, i) for i, f in enumerate(fams)]
    code = _assemble(blocks)
    digest = hashlib.sha256(code.encode()).hexdigest()[:12]
    pid = "gen:%s:%s" % ("+".join(fams), digest)
    return pid, code, fams


def generate(seed, count, families=None):
    out = {}
    fam_of = {}
    i = 0
    while len(out) < count and i < count * 3:
        pid, code, fams = generate_program(seed, i, families)
        i += 1
        if pid in out:
            continue
        out[pid] = code
        fam_of[pid] = fams
    return out, fam_of


# ---------------------------------------------------------------------------------------
# siblings: mechanical variants of a program that keep every NAME (functions, classes, variables,
# attribute names) but change what the names mean, or the order in which they are defined.  A
# program and its sibling are unrelated (neither imports the other) yet collide on every name,
# which is what a cache with too coarse a key, or anything remembered per name, trips over.

import ast as _ast

_TYPE_SWAP = {"int": "str", "str": "bytes", "bytes": "int", "float": "int", "bool": "str"}


class _TypeSwap(_ast.NodeTransformer):
    def visit_Name(self, node):
        if isinstance(node.ctx, _ast.Load) and node.id in _TYPE_SWAP:
            return _ast.copy_location(_ast.Name(id=_TYPE_SWAP[node.id], ctx=node.ctx), node)
        return node

    def visit_Constant(self, node):
        v = node.value
        if isinstance(v, bool) or v is None or v is Ellipsis:
            return node
        if isinstance(v, int):
            return _ast.copy_location(_ast.Constant(value="s%d" % v), node)
        if isinstance(v, str):
            return node
        return node


_EQUIV = {0: False, 1: True, 2: 2.0, 3: 3.0}


class _LiteralSwap(_ast.NodeTransformer):
    """0/1/2/3 <-> False/True/2.0/3.0, but never inside a type expression (subscript slices,
    annotations): `Annotated[int, 1]` and `Annotated[int, True]` are EQUAL keys of CPython's typing
    alias cache, so swapping there would make the sibling talk to its original through that cache."""

    def __init__(self):
        self.in_type = 0

    def _typed(self, node):
        if node is None:
            return None
        self.in_type += 1
        try:
            return self.visit(node)
        finally:
            self.in_type -= 1

    def visit_Subscript(self, node):
        node.value = self.visit(node.value)
        node.slice = self._typed(node.slice)
        return node

    def visit_arg(self, node):
        node.annotation = self._typed(node.annotation)
        return node

    def visit_AnnAssign(self, node):
        node.annotation = self._typed(node.annotation)
        node.target = self.visit(node.target)
        if node.value is not None:
            node.value = self.visit(node.value)
        return node

    def visit_FunctionDef(self, node):
        node.returns = self._typed(node.returns)
        self.generic_visit_fields(node, skip=("returns",))
        return node

    visit_AsyncFunctionDef = visit_FunctionDef

    def generic_visit_fields(self, node, skip=()):
        for field, old_value in _ast.iter_fields(node):
            if field in skip:
                continue
            if isinstance(old_value, list):
                new_values = []
                for value in old_value:
                    if isinstance(value, _ast.AST):
                        value = self.visit(value)
                        if value is None:
                            continue
                    new_values.append(value)
                old_value[:] = new_values
            elif isinstance(old_value, _ast.AST):
                setattr(node, field, self.visit(old_value))

    def visit_Constant(self, node):
        if self.in_type:
            return node
        v = node.value
        if type(v) is int and v in _EQUIV:
            return _ast.copy_location(_ast.Constant(value=_EQUIV[v]), node)
        if v is True:
            return _ast.copy_location(_ast.Constant(value=1), node)
        if v is False:
            return _ast.copy_location(_ast.Constant(value=0), node)
        return node


def _reorder(tree):
    """Reverse the order of top-level function definitions (callers come before callees)."""
    body = tree.body
    idx = [i for i, s in enumerate(body) if isinstance(s, (_ast.FunctionDef, _ast.AsyncFunctionDef)) and not s.decorator_list]
    if len(idx) < 2:
        return None
    funcs = [body[i] for i in idx][::-1]
    for i, f in zip(idx, funcs):
        body[i] = f
    return tree


def _has_set_of_non_ints(tree):
    for node in _ast.walk(tree):
        if isinstance(node, _ast.SetComp):
            return True
        if isinstance(node, _ast.Set):
            if not all(isinstance(e, _ast.Constant) and type(e.value) in (int, bool, float) for e in node.elts):
                return True
        if isinstance(node, _ast.Call) and isinstance(node.func, _ast.Name) and node.func.id in ("set", "frozenset") and node.args:
            return True
    return False


def siblings(pid, code):
    out = []
    try:
        norm = _ast.unparse(_ast.parse(code)) + "\n"
        if norm.strip() != code.strip():
            # the program itself in the sibling's layout: same positions, original meaning
            out.append(("%s#norm" % pid, norm))
    except Exception:
        pass
    for tag, make in (("typeswap", lambda t: _TypeSwap().visit(t)), ("litswap", lambda t: _LiteralSwap().visit(t)), ("reorder", _reorder)):
        try:
            tree = _ast.parse(code)
            new = make(tree)
            if new is None:
                continue
            _ast.fix_missing_locations(new)
            text = _ast.unparse(new) + "\n"
            _ast.parse(text)
        except Exception:
            continue
        if _has_set_of_non_ints(new):
            # a set display of strings prints in hash order by itself (Python's own repr): the
            # program, not pyanalyze, would be world-dependent (same rule as corpus/EXCLUDED.md)
            continue
        if text.strip() != _ast.unparse(_ast.parse(code)).strip():
            out.append(("%s#%s" % (pid, tag), text))
    return out
