"""Delta debugging (ddmin) with batched candidate evaluation.

`test_many(list_of_candidates) -> list_of_bool` evaluates several candidate sub-lists at once
(the caller runs them as parallel worlds).  Every candidate is a fresh deterministic world, so a
result never flips between evaluations and shrinking cannot stall on a flaky pass.
"""


def ddmin(items, test_many, max_rounds=200):
    """Return a 1-minimal-ish sub-list of items for which test is True.
    Precondition: test(items) is True (checked by the caller)."""
    items = list(items)
    n = 2
    rounds = 0
    while len(items) >= 1 and rounds < max_rounds:
        rounds += 1
        if len(items) == 1:
            res = test_many([[]])
            if res[0]:
                return []
            return items
        n = min(n, len(items))
        size = len(items) // n
        chunks = []
        start = 0
        for i in range(n):
            end = start + size + (1 if i < len(items) % n else 0)
            chunks.append(items[start:end])
            start = end
        complements = [[x for j, c in enumerate(chunks) if j != i for x in c] for i in range(n)]
        cands = chunks + (complements if n > 2 else [])
        res = test_many(cands)
        hit = None
        for idx, ok in enumerate(res):
            if ok:
                hit = idx
                break
        if hit is not None:
            items = cands[hit]
            n = 2 if hit < len(chunks) else max(n - 1, 2)
            continue
        if n >= len(items):
            break
        n = min(len(items), n * 2)
    return items
