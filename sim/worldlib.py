"""Common set-up of a *world*: one interpreter process executing real pyanalyze
code, fully determined by the spec it reads on stdin.

The launcher (sim/launch.py) starts it as

    env -i PATH=... PYTHONHASHSEED=<h> PYTHONPYCACHEPREFIX=<dir> PYTHONDONTWRITEBYTECODE=1 \
        setarch -R /venv/bin/python /verif/sim/world_main.py <kind>

so nothing but the spec and the tree under spec["repo"] reaches it.

Seams owned here:
  * output channel: fd 1 is duplicated to a private fd for the event log; fd 1/2 and
    sys.stdout/sys.stderr go to /dev/null, so neither pyanalyze's own stderr output nor a
    checked program's prints can reach the log;
  * randomness: secrets.token_hex -> tokens that are a pure function of the program id;
  * clock: time.time / time.time_ns / qcore.utime -> a simulated clock reset per operation;
  * heap layout: seeded junk allocations before pyanalyze is imported and between ops.

Logging draws nothing from a PRNG and reads no clock.
"""
import gc
import hashlib
import json
import os
import sys

MASK = (1 << 64) - 1


class Out:
    """Event log: one JSON line per event, final line carries a SHA-256 over all lines."""

    def __init__(self):
        self.fd = os.dup(1)
        devnull = os.open(os.devnull, os.O_WRONLY)
        self.debug = bool(os.environ.get("VERIF_WORLD_DEBUG"))
        os.dup2(devnull, 1)
        if not self.debug:
            os.dup2(devnull, 2)
        self.devnull_file = open(os.devnull, "w")
        sys.stdout = self.devnull_file
        if not self.debug:
            sys.stderr = self.devnull_file
        self.h = hashlib.sha256()
        self.n = 0

    def emit(self, rec):
        line = json.dumps(rec, sort_keys=True, separators=(",", ":"))
        data = (line + "\n").encode("utf-8")
        self.h.update(data)
        self.n += 1
        self._write(data)

    def _write(self, data):
        view = memoryview(data)
        while view:
            k = os.write(self.fd, view)
            view = view[k:]

    def finish(self):
        rec = {"end": True, "events": self.n, "digest": self.h.hexdigest()}
        self._write((json.dumps(rec, sort_keys=True) + "\n").encode())


class SimClock:
    """The only clock pyanalyze sees.  Reset at the start of every operation so that a
    reading can never depend on history."""

    EPOCH = 1_700_000_000.0

    def __init__(self):
        self.now = self.EPOCH

    def reset(self):
        self.now = self.EPOCH

    def time(self):
        self.now += 0.001
        return self.now

    def time_ns(self):
        return int(self.time() * 1e9)

    def utime(self):
        return int(self.time() * 1e6)


class TokenSource:
    """secrets.token_hex replacement: tokens are a pure function of (current program id, n)."""

    def __init__(self):
        self.pid = "boot"
        self.n = 0

    def begin(self, pid):
        self.pid = pid
        self.n = 0

    def token_hex(self, nbytes=None):
        if nbytes is None:
            nbytes = 32
        self.n += 1
        raw = hashlib.sha256(("tok:%s:%d" % (self.pid, self.n)).encode()).hexdigest()
        while len(raw) < 2 * nbytes:
            raw += hashlib.sha256(raw.encode()).hexdigest()
        return raw[: 2 * nbytes]


def splitmix(state):
    state = (state + 0x9E3779B97F4A7C15) & MASK
    z = state
    z = ((z ^ (z >> 30)) * 0xBF58476D1CE4E5B9) & MASK
    z = ((z ^ (z >> 27)) * 0x94D049BB133111EB) & MASK
    return state, z ^ (z >> 31)


_JUNK = []


def layout_junk(seed, rounds=1, keep=True):
    """Seeded heap perturbation: allocate objects of seeded kinds/sizes/counts and free a
    seeded subset, so that the addresses later allocations receive are a function of the seed.
    seed 0 allocates nothing (the reference layout)."""
    if not seed:
        return 0
    state = seed & MASK
    made = 0
    for _ in range(rounds):
        state, z = splitmix(state)
        count = 200 + z % 4000
        batch = []
        for _ in range(count):
            state, z = splitmix(state)
            kind = z % 6
            size = (z >> 8) % 97
            if kind == 0:
                batch.append([None] * size)
            elif kind == 1:
                batch.append(bytearray(size * 8))
            elif kind == 2:
                batch.append({"k%d" % i: i for i in range(size % 13)})
            elif kind == 3:
                batch.append(object())
            elif kind == 4:
                batch.append(type("J%d" % (z & 0xFFFF), (), {}))
            else:
                batch.append((lambda a=size: a))
        made += count
        # free a seeded subset to leave holes
        survivors = []
        for obj in batch:
            state, z = splitmix(state)
            if z % 3:
                survivors.append(obj)
        if keep:
            _JUNK.append(survivors)
    return made


def install_seams(clock, tokens):
    import secrets
    import time

    secrets.token_hex = tokens.token_hex
    time.time = clock.time
    time.time_ns = clock.time_ns


def install_qcore_seam(clock):
    try:
        import qcore

        qcore.utime = clock.utime
    except Exception:
        pass


def setup_paths(spec):
    repo = spec.get("repo", "/repo")
    for p in reversed([repo] + list(spec.get("extra_paths", []))):
        if p not in sys.path:
            sys.path.insert(0, p)
    return repo


def assert_repo(repo):
    import pyanalyze

    real = os.path.realpath(os.path.dirname(pyanalyze.__file__))
    want = os.path.realpath(os.path.join(repo, "pyanalyze"))
    if real != want:
        raise RuntimeError("pyanalyze imported from %s, expected %s" % (real, want))


def arm_watchdog(seconds):
    import faulthandler

    try:
        faulthandler.dump_traceback_later(seconds, exit=True, file=sys.__stderr__)
    except Exception:
        faulthandler.dump_traceback_later(seconds, exit=True)


def gc_point(mode):
    if mode == "collect":
        gc.collect()
    elif mode == "disable":
        gc.disable()
    elif mode == "enable":
        gc.enable()


def child_after_fork(out, seconds):
    """Hang defence inside a forked child.  faulthandler's watchdog thread does not survive
    fork() and re-arming it dead-locks on its join lock, so use SIGALRM (default action:
    terminate).  The child also drops its copy of the event-log fd."""
    import signal

    try:
        os.close(out.fd)
    except OSError:
        pass
    signal.signal(signal.SIGALRM, signal.SIG_DFL)
    signal.alarm(int(seconds))


_NL = __import__("re").compile(r"(\r\n|\r|\n)")


def pylines(text, keepends=False):
    """Split text into lines exactly where Python source lines end (\\n, \\r\\n, \\r) - unlike
    str.splitlines(), which also splits at form feeds and several Unicode separators."""
    parts = _NL.split(text)
    out = []
    for i in range(0, len(parts), 2):
        body = parts[i]
        end = parts[i + 1] if i + 1 < len(parts) else ""
        if body == "" and end == "" and i == len(parts) - 1:
            break
        out.append(body + end if keepends else body)
    return out
