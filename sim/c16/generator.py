"""C16 workload: seeded generator of importable modules carrying diagnostics.

A module = a fixed prelude (helpers every atom may use) + 1..4 functions.  All diagnostics live
inside function bodies, so importing the module succeeds and has no effect.  A function body is
assembled from *atoms* (statements known to raise a given code, with or without a proposed
replacement) placed into *skeletons* that stress the line arithmetic of the fixer.
"""
import re

from ..prng import Rng

PRELUDE = '''from asynq import asynq


@asynq()
def fetch(x: int) -> int:
    return x


async def aio_fetch(x: int) -> int:
    return x


CALLS: list = []


def takes_int(x: int) -> int:
    CALLS.append(("takes_int", x))
    return x


def takes_two(a: int, b: int) -> int:
    CALLS.append(("takes_two", a, b))
    return a + b


def noisy(tag: str) -> str:
    CALLS.append(("noisy", tag))
    return tag


def takes_many(a: int, b: int, c: int, d: int, e: int = 0) -> int:
    return a + b + c + d + e


def takes_posonly(a: int, b: int, c: int, /, d: int = 0) -> int:
    return a + b + c + d


def passthrough(fn):
    return fn


class Ctx:
    def __enter__(self) -> "Ctx":
        return self

    def __exit__(self, *args: object) -> None:
        pass


class Store:
    @asynq()
    def get_count(self, key: str) -> int:
        return len(key)

    @asynq()
    def get_max(self, key: str) -> int:
        return len(key) + 1

    @asynq()
    def get_settings(self, key: str) -> int:
        return len(key) + 2

    @asynq()
    def get_peak(self, key: str) -> int:
        return len(key) + 3


STORE = Store()
settings = {"bonus": 10}
RATIO: float = 2.5
FLAG: bool = True

'''

# name -> (kind, codes it is expected to raise, needs-enable codes, lines template)
# templates use {n} (unique number) ; every line is relative to the statement's indentation
ATOMS = {
    "undef": dict(codes=["undefined_name"], lines=["print(undefined_{n})"], simple=True),
    "undef_ret": dict(codes=["undefined_name"], lines=["total_{n} = undefined_{n}", "print(total_{n})"], simple=False),
    "bad_arg": dict(codes=["incompatible_argument"], lines=["takes_int(\"s{n}\")"], simple=True),
    "unused": dict(codes=["unused_variable"], lines=["unused_{n} = {n}"], simple=True, fix=True, no_compound=True),
    "unused_call": dict(codes=["unused_variable"], lines=["unused_{n} = takes_int({n})"], simple=True, fix=True, no_compound=True),
    "unused_tuple": dict(codes=["unused_variable"], lines=["ta_{n}, tb_{n} = {n}, 2"], simple=True),
    "unused_comp": dict(codes=["unused_variable"], lines=["print([None for cv_{n} in range({n})])"], simple=True, fix=True),
    "fstring": dict(codes=["use_fstrings"], enable=["use_fstrings"], lines=["print(\"%s and %d\" % (q, {n}))"], simple=True, fix=True),
    "fstring2": dict(codes=["use_fstrings"], enable=["use_fstrings"], lines=["label_{n} = \"<%s>\" % p", "print(label_{n})"], simple=False, fix=True),
    "missing_f": dict(codes=["missing_f"], enable=["missing_f"], lines=["print(\"{{p}} is missing {n}\")"], simple=True, fix=True),
    "two_codes": dict(codes=["undefined_name", "incompatible_call"], lines=["takes_int(undefined_{n}, 1)"], simple=True),
    "same_code_twice": dict(codes=["undefined_name", "undefined_name"], lines=["print(undefined_{n}a, undefined_{n}b)"], simple=True),
    "multiline_call": dict(codes=["undefined_name"], lines=["print(takes_two(", "    {n},", "    undefined_{n},", "))"], simple=False),
    "multiline_call2": dict(codes=["incompatible_argument"], lines=["print(takes_two(", "    {n},", "    \"s{n}\"", "))"], simple=False),
    "triple_quoted": dict(codes=["incompatible_argument"], lines=["takes_int(\"\"\"multi", "line {n}\"\"\")"], simple=False, raw_continuation=True),
    "after_triple": dict(codes=["undefined_name"], lines=["doc_{n} = \"\"\"text", "# static analysis: not a comment {n}", "\"\"\"", "print(doc_{n}, undefined_{n})"], simple=False, raw_continuation=True),
    "backslash": dict(codes=["undefined_name"], lines=["bs_{n} = {n} + \\", "    undefined_{n}", "print(bs_{n})"], simple=False),
    "attr": dict(codes=["undefined_attribute"], lines=["print(\"abc\".nosuch_{n})"], simple=True),
    "lambda_": dict(codes=["undefined_name"], lines=["print(lambda: undefined_{n})"], simple=True),
    "fstr_undef": dict(codes=["undefined_name"], lines=["print(f\"{{undefined_{n}}} {n}\")"], simple=True),
    "trailing_comment": dict(codes=["undefined_name"], lines=["print(undefined_{n})  # keep this note {n}"], simple=True),
    "dict_multi": dict(codes=["undefined_name"], lines=["print({{", "    \"k{n}\": undefined_{n},", "    \"j\": {n},", "}})"], simple=False),
    "with_multi": dict(codes=["undefined_name"], lines=["with Ctx() as c_{n}, \\", "        undefined_{n} as d_{n}:", "    print(c_{n}, d_{n})"], simple=False),
    "unused_ignore": dict(codes=["unused_ignore"], enable=["unused_ignore"], lines=["print({n})  # static analysis: ignore[undefined_name]"], simple=True, fix=True),
    "many_pos": dict(codes=["too_many_positional_args"], enable=["too_many_positional_args"], lines=["print(takes_many({n}, 2, 3, 4))"], simple=True, fix=True, needs_max_pos=True),
    "many_pos_ml": dict(codes=["too_many_positional_args"], enable=["too_many_positional_args"], lines=["print(takes_many(", "    {n}, p,", "    3, 4, e=5,", "))"], simple=False, fix=True, needs_max_pos=True),
    "many_pos_star": dict(codes=[], enable=["too_many_positional_args"], lines=["print(takes_many({n}, *pair, 4))"], simple=True, needs_max_pos=True),
    "bad_format": dict(codes=["bad_format_string"], lines=["print(\"%d %d\" % ({n},))"], simple=True),
    "call_kw": dict(codes=["incompatible_call"], lines=["takes_int({n}, bogus_{n}=1)"], simple=True),
    "fstring_elif": dict(codes=["use_fstrings"], enable=["use_fstrings"], lines=["if not p:", "    print({n})", "elif \"<%s> {n}\" % q:", "    print(p)"], simple=False, fix=True),
    "many_pos_elif": dict(codes=["too_many_positional_args"], enable=["too_many_positional_args"], lines=["if not p:", "    print({n})", "elif takes_many({n}, 2, 3, 4):", "    print(p)"], simple=False, fix=True, needs_max_pos=True),
    "elif_cond": dict(codes=["undefined_name"], lines=["if p:", "    print({n})", "elif undefined_{n}:", "    print(p)"], simple=False),
    # fixable statements spanning several physical lines, with different closing styles
    "unused_ml_bare": dict(codes=["unused_variable"], lines=["unused_{n} = takes_two(", "    {n},", "    2,", ")"], simple=False, fix=True),
    "unused_ml_double": dict(codes=["unused_variable"], lines=["unused_{n} = takes_two(takes_int(", "    {n}), takes_int(", "    2", "))"], simple=False, fix=True),
    "unused_ml_comment": dict(codes=["unused_variable"], lines=["unused_{n} = takes_two(", "    {n}, 2", ")  # closing note {n}"], simple=False, fix=True),
    "unused_ml_index": dict(codes=["unused_variable"], lines=["unused_{n} = [", "    {n},", "    2][0]"], simple=False, fix=True),
    "unused_ml_paren": dict(codes=["unused_variable"], lines=["unused_{n} = (takes_int({n}) +", "    takes_int(2))"], simple=False, fix=True),
    # statements whose last physical line lies left of their first (or ends a triple-quoted string)
    "unused_triple_col0": dict(codes=["unused_variable"], lines=["unused_{n} = \"\"\"text {n}", "@@DEDENT@@more", "@@DEDENT@@\"\"\""], simple=False, fix=True, no_compound=True),
    "unused_triple_out1": dict(codes=["unused_variable"], lines=["unused_{n} = \"\"\"text {n}", "more", "@@DEDENT4@@\"\"\""], simple=False, fix=True, no_compound=True),
    "unused_triple_tail": dict(codes=["unused_variable"], lines=["unused_{n} = \"\"\"text {n}", "@@DEDENT@@tail\"\"\""], simple=False, fix=True, no_compound=True),
    "unused_triple_call": dict(codes=["unused_variable"], lines=["unused_{n} = str(\"\"\"text {n}", "@@DEDENT@@more", "@@DEDENT@@\"\"\")"], simple=False, fix=True, no_compound=True),
    "unused_bracket_out1": dict(codes=["unused_variable"], lines=["unused_{n} = takes_two(", "        {n}, 2", "@@DEDENT4@@)"], simple=False, fix=True, no_compound=True),
    "fstring_triple_col0": dict(codes=["use_fstrings"], enable=["use_fstrings"], lines=["print(\"<%s>\" % q, \"\"\"text {n}", "@@DEDENT@@\"\"\")"], simple=False, fix=True),
    "unused_ml_method": dict(codes=["unused_variable"], lines=["unused_{n} = \"a {n} b\".replace(", "    \"a\", \"b\"", ").strip()"], simple=False, fix=True),
    "fstring_ml": dict(codes=["use_fstrings"], enable=["use_fstrings"], lines=["print(\"%s and %d\" % (", "    q,", "    {n},", "))"], simple=False, fix=True),
    # shapes around the f-string fix producer: some must be rewritten, some must be left alone
    "fstring_pair": dict(codes=[], enable=["use_fstrings"], lines=["print(\"%s and %s {n}\" % pair)"], simple=True),
    "fstring_width": dict(codes=[], enable=["use_fstrings"], lines=["print(\"%5d|%-3s\" % ({n}, q))"], simple=True),
    "fstring_width_s": dict(codes=[], enable=["use_fstrings"], lines=["print(\"item %8s|%-6s| {n}\" % (q, q))", "print(\"%4s\" % p)"], simple=False),
    # %d truncates a float and prints a bool as 0/1; {x} does neither
    "fstring_d_float": dict(codes=[], enable=["use_fstrings"], lines=["print(\"%d items {n}\" % RATIO)", "half_{n} = {n} / 2", "print(\"%d half\" % half_{n})"], simple=False),
    "fstring_d_bool": dict(codes=[], enable=["use_fstrings"], lines=["print(\"%d flags {n}|%s\" % (FLAG, FLAG))"], simple=True),
    "fstring_width_plain": dict(codes=[], enable=["use_fstrings"], lines=["print(\"%10s|%5d| {n}\" % (q, p))", "print(\"%6s|\" % q)", "print(\"%3s|%3s\" % (q, pair))"], simple=False),
    "fstring_pct": dict(codes=[], enable=["use_fstrings"], lines=["print(\"100%% of %s {n}\" % q)"], simple=True),
    "fstring_dict": dict(codes=[], enable=["use_fstrings"], lines=["print(\"%(a)s {n}\" % {{\"a\": p}})"], simple=True),
    "fstring_repr": dict(codes=[], enable=["use_fstrings"], lines=["print(\"%r and %s {n}\" % (q, p))"], simple=True),
    "fstring_braces": dict(codes=[], enable=["use_fstrings"], lines=["print(\"{{%s}} {n}\" % q)"], simple=True),
    "fstring_single_tuple_name": dict(codes=[], enable=["use_fstrings"], lines=["single_{n} = (p,)", "print(\"[%s] {n}\" % single_{n})", "print(\"<%s> {n}\" % pair)"], simple=False),
    "fstring_float_d": dict(codes=[], enable=["use_fstrings"], lines=["ratio_{n} = p / 2", "print(\"%d items {n}\" % ratio_{n})", "print(\"%s|%s\" % (ratio_{n}, ratio_{n}))"], simple=False),
    "fstring_attr": dict(codes=[], enable=["use_fstrings"], lines=["print(\"%s/%s {n}\" % (q.upper(), pair[0]))"], simple=True),
    "missing_f_ml": dict(codes=["missing_f"], enable=["missing_f"], lines=["print(", "    \"{{p}} is missing {n}\",", "    q,", ")"], simple=False, fix=True),
    "unused_comp_ml": dict(codes=["unused_variable"], lines=["print([", "    None", "    for cv_{n} in range({n})", "])"], simple=False, fix=True),
    "missing_f_fmt": dict(codes=[], enable=["missing_f"], lines=["print(\"{{p!r:>5}} and {{q}} {n}\")"], simple=True),
    "missing_f_call": dict(codes=[], enable=["missing_f"], lines=["print(\"{{p}} {n}\".format(p=q))"], simple=True),
    "comp_twice": dict(codes=["unused_variable"], lines=["print([None for cv_{n} in range(2)], [None for cv_{n} in range(3)])"], simple=True, fix=True),
    "chained_assign": dict(codes=[], lines=["ca_{n} = cb_{n} = takes_int({n})"], simple=True),
    "pair_codes": dict(codes=[], render="pair", simple=False),
    # pre-existing ignore comments of various forms around a diagnostic
    "pre_other_code_above": dict(codes=["undefined_name"], lines=["# static analysis: ignore[incompatible_call]", "print(undefined_{n})"], simple=False),
    "pre_trailing_other": dict(codes=["undefined_name"], lines=["print(undefined_{n})  # static analysis: ignore[incompatible_call]"], simple=True),
    "pre_same_code_two_above": dict(codes=[], lines=["# static analysis: ignore[undefined_name]", "# unrelated comment {n}", "print(undefined_{n})"], simple=False),
    "pre_bare_above": dict(codes=[], lines=["# static analysis: ignore", "print(undefined_{n}, takes_int(\"s{n}\"))"], simple=False),
    "marker_in_string": dict(codes=[], lines=["print(\"# static analysis: ignore[undefined_name] is the marker {n}\", undefined_{n})"], simple=True),
    "marker_in_docstring": dict(codes=["undefined_name"], lines=["doc_{n} = \"\"\"usage:", "    # static analysis: ignore[undefined_name]", "\"\"\"", "print(doc_{n}, undefined_{n})"], simple=False, raw_continuation=True),
    # fixes whose operands have side effects: order and multiplicity of the calls must survive
    # a fixable expression inside a statement that is rich in precedence / literal spellings: the fixer
    # decompiles the WHOLE statement, so everything around the fix must come back unchanged
    "fstring_kitchen_sink": dict(codes=["use_fstrings"], enable=["use_fstrings"], lines=[
        "print((p + 1) * 2, \"%s\" % q, -p ** 2, (-p) ** 2, not (p and q), (lambda z=1: z + p)(), p if q else 3, [*pair, p], {{**{{\"k\": p}}, \"z\": q, **{{\"m\": 1}}}}, (lambda *, a, b=1, c: (a, b, c))(a=p, c=q), 1_000 + 0x10 + 1e3, \"x\" \"y{n}\", p < 4 < 5, (p, q)[0], 2 ** 3 ** 2, (2 ** 3) ** 2, p // 2 % 3, ~p & 7 | 1 ^ 2, p << 1 >> 1, (yield_like := p))"],
        simple=True, fix=True),
    "unused_kitchen_sink": dict(codes=["unused_variable"], lines=[
        "if (p + 1) * 2 > -p ** 2 and not (p and q) or (p if q else 3):", "    unused_{n} = {n}", "    print([x_{n} for x_{n} in pair if x_{n} if p], {{k_{n}: v_{n} for k_{n}, v_{n} in [(1, 2)]}})"],
        simple=False, fix=True),
    "comp_kitchen_sink": dict(codes=["unused_variable"], lines=[
        "print([None for cv_{n} in range(p)], (p + 1) * 2, -p ** 2, not (p or q), p if q else 3, 2 ** 3 ** 2, (lambda: p)(), [*pair], {{**{{\"k\": p}}, \"z\": 1}}, (lambda *, a, b=1, c: (a, b, c))(a=1, c=2), \"a\" \"b\", 0x10)"], simple=True, fix=True),
    "fstring_side_effects": dict(codes=[], enable=["use_fstrings"], lines=["na_{n} = noisy(\"a{n}\")", "nb_{n} = noisy(\"b{n}\")", "print(\"%s-%s-%s\" % (nb_{n}, na_{n}, nb_{n}))"], simple=False),
    "many_pos_side_effects": dict(codes=["too_many_positional_args"], enable=["too_many_positional_args"], lines=["print(takes_many(takes_int({n}), takes_int(2), takes_two(3, 4), 5))"], simple=True, fix=True, needs_max_pos=True),
    "walrus_unused": dict(codes=["unused_variable"], lines=["wx_{n} = (wy_{n} := p) + {n}", "print(wx_{n})"], simple=False, fix=True),
    "walrus_in_call": dict(codes=["unused_variable"], lines=["print(takes_int(wz_{n} := {n}))"], simple=True),
    "decorated_inner_fstring": dict(codes=["use_fstrings"], enable=["use_fstrings"], lines=["@passthrough", "@passthrough", "def deco_inner_{n}(a: str = \"%s!\" % q) -> str:", "    return a", "print(deco_inner_{n})"], simple=False, fix=True),
    "decorated_inner_unused": dict(codes=["unused_variable"], lines=["@passthrough", "def deco_inner_{n}() -> int:", "    unused_{n} = {n}", "    return {n}", "print(deco_inner_{n})"], simple=False, fix=True),
    "many_pos_posonly": dict(codes=[], enable=["too_many_positional_args"], lines=["print(takes_posonly({n}, p, 3))", "print(takes_posonly({n}, 2, 3, 4))"], simple=False, needs_max_pos=True),
    "unused_ignore_with_reason": dict(codes=["unused_ignore"], enable=["unused_ignore"], lines=["# static analysis: ignore[undefined_name] because of legacy code {n}", "print({n})"], simple=False, fix=True),
    "unused_ignore_trailing_reason": dict(codes=["unused_ignore"], enable=["unused_ignore"], lines=["print({n})  # static analysis: ignore[undefined_name] legacy {n}"], simple=True, fix=True),
    "nested_def_in_loop": dict(codes=["undefined_name"], lines=["for it_{n} in range(p):", "    def cb_{n}(z: int = it_{n}) -> int:", "        return z + undefined_{n}", "    print(cb_{n})"], simple=False),
    # fixable expressions in the HEADER of a compound statement, or nested in another scope
    "fstring_if_header": dict(codes=["use_fstrings"], enable=["use_fstrings"], lines=["if \"<%s>\" % q == \"<w>\":", "    # body comment {n}", "    print({n})", "", "    print(p)"], simple=False, fix=True),
    "fstring_for_header": dict(codes=["use_fstrings"], enable=["use_fstrings"], lines=["for ch_{n} in \"%s-%d\" % (q, {n}):", "    print(ch_{n})  # loop note"], simple=False, fix=True),
    "fstring_return": dict(codes=["use_fstrings"], enable=["use_fstrings"], lines=["if p == {n}:", "    return \"%s!\" % q"], simple=False, fix=True),
    "fstring_lambda": dict(codes=["use_fstrings"], enable=["use_fstrings"], lines=["print((lambda z: \"%s/%s\" % (z, q))({n}))"], simple=True, fix=True),
    "fstring_in_comp": dict(codes=["use_fstrings"], enable=["use_fstrings"], lines=["print([\"%d:%s\" % (k_{n}, q) for k_{n} in range({n})])"], simple=True, fix=True),
    "fstring_twice_equal": dict(codes=["use_fstrings"], enable=["use_fstrings"], lines=["print(\"%s\" % q, \"%s\" % q, {n})"], simple=True, fix=True),
    "fstring_quotes": dict(codes=[], enable=["use_fstrings"], lines=["print('say \"%s\" {n}' % q)"], simple=True),
    "fstring_backslash": dict(codes=[], enable=["use_fstrings"], lines=["print(\"tab\\t%s\\n{n}\" % q)"], simple=True),
    "fstring_bytes": dict(codes=[], enable=["use_fstrings"], lines=["print(b\"%s {n}\" % b\"x\")"], simple=True),
    "fstring_raw": dict(codes=[], enable=["use_fstrings"], lines=["print(r\"\\d%s {n}\" % q)"], simple=True),
    "missing_f_if_header": dict(codes=["missing_f"], enable=["missing_f"], lines=["if \"{{q}} {n}\" != \"\":", "    print(p)  # note {n}"], simple=False, fix=True),
    "unused_then_blank": dict(codes=["unused_variable"], lines=["unused_{n} = {n}", "", "# a comment after the blank line {n}", "print(p)"], simple=False, fix=True),
    "unused_then_comment": dict(codes=["unused_variable"], lines=["unused_{n} = takes_int({n})", "        # deeper comment {n}", "print(p)"], simple=False, fix=True),
    "unused_noqa": dict(codes=["unused_variable"], lines=["unused_{n} = {n}  # noqa: F841"], simple=True, fix=True, no_compound=True),
    "undef_type_ignore": dict(codes=["undefined_name"], lines=["print(undefined_{n})  # type: ignore[name-defined]"], simple=True),
    "comp_nested": dict(codes=["unused_variable"], lines=["print([[None for cv_{n} in range(2)] for cw_{n} in range({n})])"], simple=True, fix=True),
    "comp_dict": dict(codes=["unused_variable"], lines=["print({{k_{n}: None for k_{n}, v_{n} in [({n}, 2)]}})"], simple=True),
    "comp_gen": dict(codes=["unused_variable"], lines=["print(list(None for gv_{n} in range({n})))"], simple=True, fix=True),
    "comp_two_clauses": dict(codes=["unused_variable"], lines=["print([a_{n} for a_{n} in range(2) for b_{n} in range({n})])"], simple=True, fix=True),
    "inner_def_default": dict(codes=["undefined_name"], lines=["def inner_{n}(", "    a=undefined_{n},", "    b={n},", "):", "    return a, b", "print(inner_{n})"], simple=False),
    "decorated_inner": dict(codes=["undefined_name"], lines=["@undefined_deco_{n}", "def inner_{n}():", "    return {n}", "print(inner_{n})"], simple=False),
    "ml_fstring_undef": dict(codes=["undefined_name"], lines=["print(f\"\"\"head {n}", "{{undefined_{n}}}", "tail\"\"\")"], simple=False, raw_continuation=True),
    # characters that str.splitlines() treats as line ends but Python does not
    "formfeed_str": dict(codes=["undefined_name"], lines=["ff_{n} = \"a\x0cb\"", "print(ff_{n}, undefined_{n})"], simple=False),
    "nel_comment": dict(codes=["undefined_name"], lines=["# note \x85 here {n}", "print(undefined_{n})"], simple=False),
    "ls_str": dict(codes=["undefined_name"], lines=["ls_{n} = \"a\u2028b\x1cc\x0bd\"", "print(ls_{n}, undefined_{n})"], simple=False),
    "nonascii_before": dict(codes=["undefined_name"], lines=["print(\"h\u00e9llo w\u00f6rld \u4e16\u754c {n}\", undefined_{n})"], simple=True),
    # two codes on one line of which one NAME contains the other (undefined_name inside
    # possibly_undefined_name): comments must be matched by code, not by substring
    "substring_codes": dict(codes=["possibly_undefined_name", "undefined_name"], lines=["if p:", "    maybe_{n} = {n}", "print(maybe_{n}, undefined_{n})"], simple=False),
    "possibly_undef": dict(codes=["possibly_undefined_name"], lines=["if p:", "    maybe_{n} = {n}", "print(maybe_{n})"], simple=False),
}

# statements placed at MODULE level (they execute at import, so only shapes that run without raising)
MODULE_ATOMS = {
    "mod_missing_await": (["aio_fetch({n})"], []),
    "mod_bad_arg": (["takes_int(\"s{n}\")"], []),
    "mod_bad_assign": (["MODV_{n}: int = \"s{n}\""], []),
    "mod_bad_default": (["def md_{n}(x: int = \"s{n}\") -> None:", "    pass"], []),
    "mod_bad_default_ml": (["def mdm_{n}(", "    x: int = \"s{n}\",", "    y: str = {n},", ") -> None:", "    pass"], []),
    "mod_fstring": (["BASE_{n} = \"b{n}\"", "LABEL_{n} = \"%s!\" % BASE_{n}"], ["use_fstrings"]),
    "mod_unused_ignore": (["FLAG_{n} = {n}  # static analysis: ignore[undefined_name]"], ["unused_ignore"]),
    "class_attr_never_set": (["class CB_{n}:", "    kind: int = \"k{n}\"", "", "    def first(self) -> object:", "        return self.never_{n}", "",
                              "    def second(self) -> object:", "        return [self.never_{n}, self.other_{n}]"], []),
    "class_body_bad_call": (["class CC_{n}:", "    size = takes_int(\"c{n}\")", "    label = \"%s?\" % \"x\"", "", "    def m(self) -> int:", "        return {n}"], []),
    "mod_missing_return": (["def mr_{n}(flag: bool) -> int:", "    if flag:", "        return {n}"], []),
    "decorated_bad_default": (["@staticmethod", "def dec_{n}(x: int = \"s{n}\") -> None:", "    pass"], []),
}

# atoms for the asynq / await fix producers; only placed inside @asynq() functions
ASYNQ_ATOMS = {
    "dup_yield2": ["ya_{n} = yield fetch.asynq({n})", "yb_{n} = yield fetch.asynq(p)", "print(ya_{n}, yb_{n})"],
    "dup_yield3": ["ya_{n} = yield fetch.asynq({n})", "yb_{n} = yield fetch.asynq(p)", "yc_{n} = yield fetch.asynq(3)", "print(ya_{n}, yb_{n}, yc_{n})"],
    "dup_underscore": ["_ = yield fetch.asynq({n})", "_ = yield fetch.asynq(p)"],
    "dup_tuple_target": ["yc_{n} = yield fetch.asynq({n}), fetch.asynq(2)", "yd_{n} = yield fetch.asynq(3)", "print(yc_{n}, yd_{n})"],
    "unnecessary": ["ye_{n} = yield fetch.asynq({n})", "mid_{n} = p + {n}", "yf_{n} = yield fetch.asynq(mid_{n})", "print(ye_{n}, yf_{n})"],
    "task_needs_yield": ["fetch.asynq(p + {n})"],
    "task_needs_yield_kw": ["fetch.asynq(x={n})"],
    "task_needs_yield_ml": ["fetch.asynq(", "    p + {n}", ")"],
    "task_needs_yield_ml2": ["fetch.asynq(takes_two(", "    p, {n}))"],
    "impure_call_ml": ["print(fetch(", "    p + {n},", "))"],
    "dup_ml2": ["yk_{n} = yield fetch.asynq({n})", "yl_{n} = yield fetch.asynq(", "    p,", ")", "print(yk_{n}, yl_{n})"],
    "impure_call": ["print(fetch(p + {n}))"],
    "impure_call_in_listcomp": ["print([fetch(x_{n}) for x_{n} in range(p)])"],
    "impure_call_in_lambda": ["print((lambda: fetch({n}))())"],
    "impure_call_nested": ["print(takes_two(fetch({n}), fetch(p)))"],
    "dup_nested": ["if p:", "    yg_{n} = yield fetch.asynq({n})", "    yh_{n} = yield fetch.asynq(p)", "    print(yg_{n}, yh_{n})"],
    "dup_ml": ["yi_{n} = yield fetch.asynq(", "    {n}", ")", "yj_{n} = yield fetch.asynq(p)", "print(yi_{n}, yj_{n})"],
    "dup_attr_target": ["holder_{n} = Ctx()", "holder_{n}.a = yield fetch.asynq({n})", "holder_{n}.b = yield fetch.asynq(p)", "print(holder_{n})"],
    "unpacked_then_yield": ["ua_{n}, ub_{n}, uc_{n} = yield fetch.asynq(1), fetch.asynq(2), fetch.asynq({n})", "ud_{n} = yield fetch.asynq(p)", "print(ua_{n}, ub_{n}, uc_{n}, ud_{n})"],
    "unpacked_then_yield2": ["(zz_{n}, aa_{n}), mm_{n} = yield (fetch.asynq(1), fetch.asynq(2)), fetch.asynq({n})", "kk_{n} = yield fetch.asynq(p)", "print(zz_{n}, aa_{n}, mm_{n}, kk_{n})"],
    "dup_mixed": ["ym_{n} = yield fetch.asynq({n})", "_ = yield fetch.asynq(p)", "yn_{n} = yield fetch.asynq(ym_{n})", "print(yn_{n})"],
    # a yield that is not the whole right-hand side: the batching fix first hoists it into an
    # assignment to a name it INVENTS (from the called function: get_xyz -> xyz, foo -> foo_result);
    # the invented name must be fresh with respect to everything the function can see
    "hoist_plain": ["hc_{n} = yield STORE.get_count.asynq(q)", "ht_{n} = {n}", "ht_{n} += yield STORE.get_peak.asynq(q)", "print(hc_{n}, ht_{n})"],
    "hoist_fetch": ["hc_{n} = yield fetch.asynq({n})", "ht_{n} = p", "ht_{n} += yield fetch.asynq(p)", "print(hc_{n}, ht_{n})"],
    "hoist_vs_builtin": ["hc_{n} = yield STORE.get_count.asynq(q)", "ht_{n} = {n}", "ht_{n} += yield STORE.get_max.asynq(q)", "print(max(hc_{n}, ht_{n}))"],
    "hoist_vs_global": ["hb_{n} = settings[\"bonus\"]", "hc_{n} = yield STORE.get_count.asynq(q)", "ht_{n} = hb_{n}", "ht_{n} += yield STORE.get_settings.asynq(q)", "print(hc_{n} + ht_{n})"],
    "hoist_call_arg": ["hc_{n} = yield STORE.get_count.asynq(q)", "print(takes_two(hc_{n}, (yield STORE.get_max.asynq(q))), max(1, {n}))"],
    # the hoisted yield's argument is computed BETWEEN the two yields: it cannot move above that
    "hoist_dep": ["hc_{n} = yield STORE.get_count.asynq(q)", "mid_{n} = q + \"x{n}\"", "ht_{n} = {n}", "ht_{n} += yield STORE.get_peak.asynq(mid_{n})", "print(hc_{n}, ht_{n})"],
    "hoist_first_dep": ["ht_{n} = {n}", "ht_{n} += yield STORE.get_count.asynq(q)", "mid_{n} = q + \"y{n}\"", "hd_{n} = yield STORE.get_peak.asynq(mid_{n})", "print(ht_{n}, hd_{n})"],
    "aug_use_then_yield": ["hu_{n} = yield fetch.asynq({n})", "tot_{n} = p", "tot_{n} += hu_{n}", "hv_{n} = yield fetch.asynq(p)", "print(tot_{n}, hv_{n})"],
    "impure_call_elif": ["if not p:", "    print({n})", "elif fetch(p + {n}):", "    print(p)"],
    "hoist_vs_local": ["peak = {n}", "hc_{n} = yield STORE.get_count.asynq(q)", "ht_{n} = peak", "ht_{n} += yield STORE.get_peak.asynq(q)", "print(hc_{n}, ht_{n}, peak)"],
}

# atoms that hit a recorded, unrepaired defect of pyanalyze (KNOWN_FINDINGS.json); they are
# generated only when explicitly enabled so that the rest of the search is not drowned
KNOWN_DEFECT_ATOMS = {"backslash", "with_multi", "ml_fstring_undef", "marker_in_docstring"}

SKELETONS = ["only_stmt_of_else", "only_stmt_of_except", "only_stmt_of_finally", "class_body_method", "docstring_fn", "asynq_fn", "missing_asynq_fn", "async_def", "plain", "only_stmt_of_if", "for_body", "try_except", "with_block", "one_line_if", "semicolon",
             "method", "nested", "after_comment", "after_decorator", "else_branch", "while_body"]


# continuation lines of a statement that sit LEFT of the statement's own indentation (closing
# delimiter of a triple-quoted string at column 0, a closing bracket one level out): the atom marks
# them, the indentation added by the skeletons is cut back once the module is assembled
_DEDENT = re.compile(r"^([ \t]*)@@DEDENT(\d*)@@")


def _dedent_line(m):
    ws, k = m.group(1), m.group(2)
    return ws[: max(0, len(ws) - int(k))] if k else ""


def _indent(lines, prefix):
    return [prefix + l if l else l for l in lines]


PAIR_EXPRS = [
    ("undefined_name", "undefined_{n}", []),
    ("possibly_undefined_name", "maybe_{n}", ["if p:", "    maybe_{n} = {n}"]),
    ("undefined_attribute", "\"abc\".nosuch_{n}", []),
    ("incompatible_argument", "takes_int(\"s{n}\")", []),
    ("incompatible_call", "takes_int({n}, bogus_{n}=1)", []),
    ("bad_format_string", "\"%d %d\" % ({n},)", []),
]


def render_atom(name, n, r=None):
    spec = ATOMS[name]
    if spec.get("render") == "pair":
        a, b = r.sample(PAIR_EXPRS, 2)
        pre = [l.format(n=n) for l in a[2] + b[2]]
        return pre + ["print(%s, %s)" % (a[1].format(n=n), b[1].format(n=n))]
    return [l.format(n=n) for l in spec["lines"]]


class Gen:
    def __init__(self, seed, index, opts=None):
        self.r = Rng(seed, "c16", "gen", index)
        self.n = 0
        self.opts = opts or {}
        self.meta = {"atoms": [], "skeletons": [], "features": []}

    def next_n(self):
        self.n += 1
        return self.n

    def pick_atom(self, simple_only=False, compound_ok=True):
        r = self.r
        names = sorted(self.enabled_atoms)
        forced = getattr(self, "forced_atom", None)
        if forced is not None and not simple_only and (compound_ok or not ATOMS[forced].get("no_compound")):
            # place the round-robin atom first
            self.forced_atom = None
            return forced
        for _ in range(30):
            name = r.choice(names)
            spec = ATOMS[name]
            if simple_only and not spec.get("simple"):
                continue
            if not compound_ok and spec.get("no_compound"):
                continue
            return name
        return "undef"

    def place(self, skeleton, unit):
        """-> list of body lines (relative indentation, 4 spaces per level)."""
        r = self.r
        out = []

        def atom(simple_only=False, compound_ok=True):
            name = self.pick_atom(simple_only, compound_ok)
            n = self.next_n()
            self.meta["atoms"].append(name)
            return name, render_atom(name, n, self.r)

        if skeleton == "plain":
            for _ in range(r.randint(1, 3)):
                out += atom()[1]
        elif skeleton == "only_stmt_of_if":
            name, lines = atom()
            out += ["if p:"] + _indent(lines, "    ")
            if r.chance(0.5):
                out += ["print(p)"]
        elif skeleton == "only_stmt_of_else":
            name, lines = atom()
            out += ["if p:", "    print(p)", "else:"] + _indent(lines, "    ")
        elif skeleton == "only_stmt_of_except":
            name, lines = atom()
            out += ["try:", "    print(p)", "except ValueError:"] + _indent(lines, "    ")
        elif skeleton == "only_stmt_of_finally":
            name, lines = atom()
            out += ["try:", "    print(p)", "finally:"] + _indent(lines, "    ")
        elif skeleton == "docstring_fn":
            out += ["\"\"\"Docstring of the function.", "", "    second paragraph %d\"\"\"" % self.next_n()] + atom()[1]
        elif skeleton == "for_body":
            out += ["for i_%d in range(p):" % self.next_n()]
            body = []
            for _ in range(r.randint(1, 2)):
                body += atom()[1]
            out += _indent(body, "    ")
        elif skeleton == "try_except":
            a = atom()[1]
            b = atom()[1]
            out += ["try:"] + _indent(a, "    ") + ["except ValueError:"] + _indent(b, "    ")
        elif skeleton == "with_block":
            out += ["with Ctx() as ctx_%d:" % self.next_n()] + _indent(atom()[1] + ["print(p)"], "    ")
        elif skeleton == "one_line_if":
            name, lines = atom(simple_only=True, compound_ok=False)
            out += ["if p: " + lines[0]]
        elif skeleton == "semicolon":
            n1, l1 = atom(simple_only=True, compound_ok=False)
            n2, l2 = atom(simple_only=True, compound_ok=False)
            out += [l1[0].split("  #")[0] + "; " + l2[0]]
        elif skeleton == "nested":
            inner = atom()[1]
            out += ["if p:", "    for j_%d in range(2):" % self.next_n(), "        if q:"] + _indent(inner, "            ") + ["print(p, q)"]
        elif skeleton == "after_comment":
            out += ["# an ordinary comment %d" % self.next_n()] + atom()[1]
        elif skeleton == "else_branch":
            out += ["if p:", "    print(p)", "else:"] + _indent(atom()[1], "    ")
        elif skeleton == "while_body":
            out += ["while p:"] + _indent(atom()[1] + ["break"], "    ")
        else:
            out += atom()[1]
        return out

    def function(self, k):
        r = self.r
        skeleton = r.choice(self.enabled_skeletons)
        self.meta["skeletons"].append(skeleton)
        if skeleton == "asynq_fn":
            body = []
            for _ in range(r.randint(1, 3)):
                name = r.choice(sorted(ASYNQ_ATOMS))
                n = self.next_n()
                self.meta["atoms"].append("asynq:" + name)
                body += [l.format(n=n) for l in ASYNQ_ATOMS[name]]
            body += ["last_%d = yield fetch.asynq(0)" % self.next_n(), "return p"]
            body[-2:] = ["return p"] if r.chance(0.5) else body[-2:]
            return ["@asynq()", "def af%d(p: int = 3, q: str = \"w\", pair: tuple = (4, 5)):" % k] + _indent(body, "    ")
        if skeleton == "missing_asynq_fn":
            n = self.next_n()
            self.meta["atoms"].append("asynq:missing_asynq")
            return ["def gen%d(p: int = 3):" % k, "    got_%d = yield fetch.asynq(p + %d)" % (n, n), "    return got_%d" % n]
        if skeleton == "async_def":
            n = self.next_n()
            self.meta["atoms"].append("asynq:missing_await")
            v = r.below(4)
            if v == 0:
                return ["async def co%d(p: int = 3) -> None:" % k, "    aio_fetch(p + %d)" % n, "    print(p)"]
            if v == 1:
                # a plain def nested in an async def (and the reverse): the fix must pick the keyword
                # of the innermost function
                return ["async def co%d(p: int = 3) -> None:" % k, "    def on_message_%d(msg):" % n, "        aio_fetch(msg + %d)" % n, "    on_message_%d(p)" % n, "    await aio_fetch(p)"]
            if v == 2:
                return ["def outer%d(p: int = 3) -> object:" % k, "    async def inner_%d(msg: int) -> None:" % n, "        aio_fetch(msg + %d)" % n, "    return inner_%d" % n]
            return ["async def co%d(p: int = 3) -> None:" % k, "    if p:", "        aio_fetch(", "            p + %d" % n, "        )", "    print(p)"]
        body = []
        for _ in range(r.randint(1, 2) if skeleton != "method" else 1):
            sk = skeleton if skeleton not in ("method", "after_decorator", "class_body_method") else r.choice(["plain", "only_stmt_of_if", "for_body", "only_stmt_of_else"])
            body += self.place(sk, k)
        if r.chance(0.6):
            body += ["return p"]
        head = []
        if skeleton == "method":
            lines = ["class K%d:" % k, "    def m(self, p: int = 3, q: str = \"w\", pair: tuple = (4, 5)) -> object:"] + _indent(body, "        ")
            if body and not body[-1].startswith("return"):
                pass
            return lines
        if skeleton == "class_body_method":
            return ["class Outer%d:" % k, "    limit = %d" % k, "", "    class Inner:", "        def m(self, p: int = 3, q: str = \"w\", pair: tuple = (4, 5)) -> object:"] + _indent(body, "            ")
        if skeleton == "after_decorator":
            head = ["@staticmethod"]
            return ["class D%d:" % k] + _indent(head + ["def f(p: int = 3, q: str = \"w\", pair: tuple = (4, 5)) -> object:"] + _indent(body, "    "), "    ")
        return ["def f%d(p: int = 3, q: str = \"w\", pair: tuple = (4, 5)) -> object:" % k] + _indent(body, "    ")

    def module(self, name):
        r = self.r
        lines = []
        first_line_def = r.chance(self.opts.get("p_first_line", 0.15))
        if first_line_def:
            n = self.next_n()
            self.meta["features"].append("diag_on_line_1")
            self.meta["atoms"].append("undef")
            lines += ["def first_%d(): return undefined_%d" % (n, n), "", ""]
        hv = r.below(10)
        if not first_line_def:
            if hv == 0:
                self.meta["features"].append("header_comment_then_blank")
                lines += ["# header comment", "# second header line", ""]
            elif hv == 1:
                self.meta["features"].append("module_docstring")
                lines += ["\"\"\"Module docstring.\"\"\"", ""]
            elif hv == 2:
                self.meta["features"].append("header_comment_then_def_with_diag")
                n = self.next_n()
                self.meta["atoms"].append("undef")
                lines += ["# header comment only", "def early_%d(): return undefined_%d" % (n, n), "", ""]
            elif hv == 3:
                self.meta["features"].append("header_comment_blank_then_def_with_diag")
                n = self.next_n()
                self.meta["atoms"].append("undef")
                lines += ["# licence line one", "# licence line two", "", "def early_%d(): return undefined_%d" % (n, n), "", ""]
            elif hv == 4:
                self.meta["features"].append("leading_blank_then_def_with_diag")
                n = self.next_n()
                self.meta["atoms"].append("undef")
                lines += ["", "def early_%d(): return undefined_%d" % (n, n), "", ""]
        lines += PRELUDE.split("\n")
        if r.chance(self.opts.get("p_module_level", 0.3)):
            for _ in range(r.randint(1, 3)):
                name = r.choice(sorted(MODULE_ATOMS))
                n = self.next_n()
                self.meta["atoms"].append("module:" + name)
                body, enable = MODULE_ATOMS[name]
                self.meta.setdefault("module_enable", set()).update(enable)
                lines += [l.format(n=n) for l in body] + ["", ""]
        for k in range(r.randint(1, 4)):
            lines += self.function(k) + ["", ""]
        while lines and lines[-1] == "":
            lines.pop()
        lines = [_DEDENT.sub(_dedent_line, l) for l in lines]
        if r.chance(0.2):
            # a diagnostic on the very last line, no trailing newline
            n = self.next_n()
            self.meta["features"].append("diag_on_last_line_no_newline")
            self.meta["atoms"].append("undef")
            lines += ["", "", "def last_%d(): return undefined_%d" % (n, n)]
            text = "\n".join(lines)
        else:
            text = "\n".join(lines) + "\n"
        head = r.below(12) if not self.opts.get("plain_text") else 99
        if head == 0 and not first_line_def:
            self.meta["features"].append("encoding_cookie")
            text = "# -*- coding: utf-8 -*-\n" + text
        elif head == 1 and not first_line_def:
            self.meta["features"].append("shebang")
            text = "#!/usr/bin/env python\n" + text
        elif head == 2:
            self.meta["features"].append("bom")
            text = "\ufeff" + text
        if not self.opts.get("plain_text") and r.chance(self.opts.get("p_tabs", 0.1)):
            self.meta["features"].append("tabs")
            text = "\n".join(_tabify(l) for l in text.split("\n"))
        if not self.opts.get("plain_text") and r.chance(self.opts.get("p_crlf", 0.08)):
            self.meta["features"].append("crlf")
            text = text.replace("\n", "\r\n")
        return text

    def tree(self):
        r = self.r
        # swarm: each tree enables a random subset of atoms and skeletons
        # inputs that hit a recorded, unrepaired defect are kept rare so that most runs get past them
        with_known = bool(self.opts.get("known_defect_atoms")) and r.chance(self.opts.get("p_known", 0.12))
        self.meta["features"].append("known_defect_inputs" if with_known else "no_known_defect_inputs")
        pool = [a for a in sorted(ATOMS) if a not in KNOWN_DEFECT_ATOMS or with_known]
        k = r.randint(2, min(7, len(pool)))
        self.enabled_atoms = set(r.sample(pool, k))
        # round-robin guarantee: tree number i always carries atom number i mod N, so that even the
        # quick tier places every atom in a few trees
        ordered = [a for a in sorted(ATOMS) if a in pool]
        if ordered and self.opts.get("index") is not None:
            self.enabled_atoms.add(ordered[self.opts["index"] % len(ordered)])
            self.forced_atom = ordered[self.opts["index"] % len(ordered)]
            self.meta["forced_atom"] = self.forced_atom
            self.meta["forced_atom_has_fix"] = bool(ATOMS[self.forced_atom].get("fix"))
        skeletons = [k for k in SKELETONS if with_known or k not in ("semicolon", "one_line_if")]
        self.enabled_skeletons = r.sample(skeletons, r.randint(2, 5))
        if not with_known:
            self.opts = dict(self.opts, p_tabs=0.0)
        files = {}
        for i in range(r.choice([1, 1, 1, 2, 2, 3])):
            files["mod_%s%d.py" % (chr(97 + i), r.below(90))] = self.module("m%d" % i)
        if len(files) >= 2 and r.chance(0.25):
            # a file of the same basename in a sub-directory (no __init__.py)
            self.meta["features"].append("same_basename_in_subdir")
            first = sorted(files)[0]
            files["sub/" + first] = self.module("s0")
        if r.chance(0.12):
            # one more module, reached through a symbolic link whose target is outside the tree
            self.meta["features"].append("symlinked_file")
            self.meta["links"] = {"link_mod%d.py" % r.below(90): self.module("lnk")}
        if len(files) >= 2 and not any("/" in n for n in files) and r.chance(0.3):
            # the second file imports a class of the first and reads the same never-set attribute
            self.meta["features"].append("cross_file_class_attribute_read")
            a, b = sorted(files)[:2]
            if "\r\n" not in files[a] and "\r\n" not in files[b] and "\t" not in files[a] and "\t" not in files[b]:
                tail_a = "" if files[a].endswith("\n") else "\n"
                tail_b = "" if files[b].endswith("\n") else "\n"
                files[a] += tail_a + "\n\nclass Shared:\n    label = \"widget\"\n\n    def describe(self) -> object:\n        return self.colour\n"
                files[b] += tail_b + "\n\nfrom %s import Shared\n\n\ndef read_shared(w: Shared) -> object:\n    return [w.colour, w.label]\n" % a[:-3]
        enable = sorted({c for a in self.meta["atoms"] if a in ATOMS for c in ATOMS[a].get("enable", [])} | set(self.meta.pop("module_enable", set())))
        if "unused_ignore" in enable and ("module:class_attr_never_set" in self.meta["atoms"] or "cross_file_class_attribute_read" in self.meta["features"]) and not with_known:
            # recorded defect C16-K6 (late attribute-checker diagnostics vs unused_ignore): keep the
            # combination to the trees that are allowed to hit known defects
            enable = [c for c in enable if c != "unused_ignore"]
        self.meta["enable"] = enable
        self.meta["extra_args"] = ["--maximum-positional-args", "3"] if any(ATOMS.get(a, {}).get("needs_max_pos") for a in self.meta["atoms"]) else []
        self.meta["enabled_atoms"] = sorted(self.enabled_atoms)
        return files, self.meta


def _tabify(line):
    stripped = line.lstrip(" ")
    n = len(line) - len(stripped)
    if n % 4 == 0 and n:
        return "\t" * (n // 4) + stripped
    return line


def generate_tree(seed, index, opts=None):
    opts = dict(opts or {})
    opts.setdefault("index", index)
    g = Gen(seed, index, opts)
    return g.tree()
