"""C16 orchestrator: generate trees + operation/fault sequences from VERIF_SEED, run each as a
world, judge the event logs, minimise and write replay files, write evidence."""
import collections
import concurrent.futures
import hashlib
import json
import os
import sys
import time
import traceback

from .. import findings as findings_mod
from .. import launch
from ..prng import Rng
from ..shrink import ddmin
from . import generator, oracles

VERIF = launch.VERIF
PROP = "C16"


class Tier:
    def __init__(self, name):
        q = name == "quick"
        self.name = name
        self.n_runs = int(os.environ.get("VERIF_C16_RUNS", 260 if q else 6000))
        self.n_selftest = 8 if q else 48
        self.max_minimise = int(os.environ.get("VERIF_C16_MAXMIN", 8 if q else 30))
        self.wall_budget = float(os.environ.get("VERIF_C16_WALL", 170 if q else 3000))
        self.n_cli = 3 if q else 20


def make_ops(r, meta, files):
    E = list(meta["enable"])
    ops = [{"op": "probe", "enable": list(E)}]
    style = r.choice(["loop_only", "steps_then_loop", "steps_then_loop", "autofix_first", "autofix_drain", "autofix_drain", "restart_every", "stale", "crashy"])
    if meta.get("forced_atom_has_fix") and r.chance(0.7):
        # the tree carries its round-robin atom for the sake of that atom's FIX: make sure fixes get
        # applied one after the other
        style = "autofix_drain"
    p_restart = {"restart_every": 1.0, "stale": 0.0}.get(style, r.choice([0.0, 0.3, 0.6]))
    p_alt = r.choice([0.0, 0.3, 0.7])
    p_crash = 0.5 if style == "crashy" and len(files) > 1 else 0.0
    n_steps = 0 if style == "loop_only" else r.randint(1, 6)
    if style == "autofix_drain":
        # apply proposed fixes one after the other until (nearly) all of them have been through
        n_steps = r.randint(6, 10)
    faultless = p_crash == 0.0
    for s in range(n_steps):
        if style == "autofix_drain":
            mode = "autofix"
        elif style == "autofix_first":
            mode = "autofix" if s < n_steps - 1 or r.chance(0.5) else "add_ignores"
        else:
            mode = "autofix" if r.chance(0.45) else "add_ignores"
        op = {"op": "iter", "mode": mode, "enable": list(E)}
        if r.chance(p_alt) or (style == "autofix_drain" and r.chance(0.8)):
            # pyanalyze applies changes[0] only, which is often a diagnostic without replacement;
            # alt=j makes the j-th applicable change the first (what accepting that patch in -f does)
            op["alt"] = r.randint(1, 5)
        if r.chance(p_crash):
            op["crash_after"] = r.randint(0, len(files) - 1)
        if r.chance(p_restart):
            ops.append({"op": "restart"})
        ops += [op, {"op": "probe", "enable": list(E)}]
        if meta["enable"] and r.chance(0.15):
            # switch: toggle one optional code
            c = r.choice(meta["enable"])
            if c in E:
                E.remove(c)
            else:
                E.append(c)
            ops.append({"op": "probe", "enable": list(E)})
    if r.chance(0.5):
        ops.append({"op": "restart"})
    ops += [{"op": "loop", "mode": "add_ignores", "enable": list(E)}, {"op": "probe", "enable": list(E)}, {"op": "s6", "enable": list(E), "max": 5, "stride": r.choice([1, 1, 2, 3]), "phase": r.below(3)}]
    return ops, {"style": style, "faultless": faultless}


def build_run(seed, index, opts=None):
    files, meta = generator.generate_tree(seed, index, opts)
    r = Rng(seed, "c16", "ops", index)
    ops, info = make_ops(r, meta, files)
    if meta.get("extra_args"):
        for op in ops:
            if op["op"] in ("iter", "loop"):
                op["extra_args"] = list(meta["extra_args"])
    hash_seed = r.choice([0, 0, 1, 2, 3])
    layout = 0 if r.chance(0.6) else 1 + r.below(1 << 20)
    return {"index": index, "files": files, "ops": ops, "meta": meta, "info": info, "hash": hash_seed, "layout": layout}


class Runner:
    def __init__(self, tier, seed, workers):
        self.tier, self.seed, self.workers = tier, seed, workers
        self.t0 = time.time()
        self.stats = collections.Counter()
        self.harness_errors = []
        self.worlds_run = 0
        self.pyc = None

    def log(self, *a):
        print("[c16 %6.1fs]" % (time.time() - self.t0), *a, flush=True)

    def spec_of(self, run, tag):
        return {"files": run["files"], "ops": run["ops"], "layout_seed": run["layout"], "extra_args": (run.get("meta") or {}).get("extra_args", []),
                "links": (run.get("meta") or {}).get("links") or {},
                "root": os.path.join(self.pyc.dir, "trees", "t%s" % tag, "tree"), "world_timeout": 600}

    def execute(self, run, tag):
        spec = self.spec_of(run, tag)
        events, end = launch.run_world("c16", spec, run["hash"], self.pyc.dir, timeout=600)
        return events, end

    def judge(self, run, events):
        files = dict(run["files"])
        files.update((run.get("meta") or {}).get("links") or {})
        return oracles.judge({"files": files}, events)

    def run_many(self, runs, tagp="r"):
        out = {}

        def one(item):
            k, run = item
            t = time.time()
            try:
                events, end = self.execute(run, "%s%d" % (tagp, k))
            except launch.HarnessError as e:
                return k, None, None, str(e)
            end["wall"] = time.time() - t
            return k, events, end, None

        with concurrent.futures.ThreadPoolExecutor(max_workers=self.workers) as ex:
            for k, events, end, err in ex.map(one, list(enumerate(runs))):
                self.worlds_run += 1
                if err:
                    self.harness_errors.append("run %s: %s" % (runs[k].get("index"), err))
                    continue
                out[k] = (events, end)
        return out

    def run(self):
        import glob
        for old in glob.glob(os.path.join(launch.OUT, "replays", "C16-%d-*.json" % self.seed)):
            os.unlink(old)
        self.pyc = launch.PycCache("c16")
        try:
            return self._run()
        finally:
            self.pyc.close()

    def _run(self):
        tier = self.tier
        opts = {"known_defect_atoms": bool(int(os.environ.get("VERIF_C16_KNOWN_ATOMS", "1")))}
        runs = [build_run(self.seed, i, opts) for i in range(tier.n_runs)]
        self.log("seed=%d tier=%s runs=%d workers=%d" % (self.seed, tier.name, len(runs), self.workers))
        try:
            launch.run_world("c16", self.spec_of(runs[0], "warm"), 0, self.pyc.dir, write_bytecode=True)
        except launch.HarnessError as e:
            self.harness_errors.append("warm-up: %s" % e)
            return self.finish(runs, {}, [], [])
        results = self.run_many(runs)
        self.log("worlds done: %d" % len(results))
        slow = sorted(((end["wall"], runs[k]["index"]) for k, (ev, end) in results.items()), reverse=True)[:5]
        self.log("slowest worlds (s, run): %s" % [(round(w, 1), i) for w, i in slow])
        all_viol = []
        per_run_stats = {}
        digests = {}
        for k, (events, end) in sorted(results.items()):
            digests[k] = end["digest"]
            try:
                viols, st = self.judge(runs[k], events)
            except Exception:
                self.harness_errors.append("oracle crashed on run %d: %s" % (runs[k]["index"], traceback.format_exc()[-1500:]))
                continue
            per_run_stats[k] = st
            self.stats.update(st)
            self.account(runs[k], events, st)
            for v in viols:
                v["run"] = k
                all_viol.append(v)
        # determinism self-test
        r = Rng(self.seed, "c16", "selftest")
        sample = r.sample(sorted(results), min(tier.n_selftest, len(results)))
        saved = self.workers
        self.workers = max(2, saved // 2 + 1)
        again = self.run_many([runs[k] for k in sample], tagp="s")
        self.workers = saved
        bad = 0
        for j, k in enumerate(sample):
            if j in again and again[j][1]["digest"] != digests[k]:
                bad += 1
                self.harness_errors.append("non-deterministic world for run %d" % runs[k]["index"])
        self.stats["selftest_worlds_rerun"] = len(again)
        self.stats["selftest_digest_mismatches"] = bad
        self.log("determinism self-test: %d worlds re-run, %d mismatches" % (len(again), bad))
        self.cli_crosscheck(runs, results)
        violations, known = self.triage(runs, all_viol)
        return self.finish(runs, results, violations, known)

    def account(self, run, events, st):
        self.stats["iterations_total"] += sum(((e.get("res") or {}).get("sim") or {}).get("iterations", 0) for e in events if isinstance(e.get("res"), dict))
        for e in events:
            if "lifetimes" in e:
                self.stats["lifetimes"] += e["lifetimes"]
        for a in run["meta"]["atoms"]:
            self.stats["atom_placed:%s" % a] += 1
        for s in run["meta"]["skeletons"]:
            self.stats["skeleton:%s" % s] += 1
        for f in run["meta"]["features"]:
            self.stats["feature:%s" % f] += 1
        self.stats["style:%s" % run["info"]["style"]] += 1
        first = next((e for e in events if e.get("op") == "probe"), None)
        f = oracles.failures_of(first.get("res")) if first else None
        if f:
            for d in f:
                self.stats["diag_produced:%s" % d["code"]] += 1
            if len(f) >= 2:
                self.stats["runs_with_2plus_diags"] += 1

    # ------------------------------------------------------------------ CLI cross-check
    def cli_crosscheck(self, runs, results):
        """A sample of trees is also driven through the genuine command line
        (`python -m pyanalyze -r --add-ignores <tree>` as a subprocess) and must end in the same
        text as a world that runs only the loop."""
        import shutil
        import subprocess
        n = 0
        for k in sorted(results)[: self.tier.n_cli * 4]:
            run = runs[k]
            if n >= self.tier.n_cli:
                break
            if (run.get("meta") or {}).get("links"):
                continue
            loop_only = dict(run, ops=[{"op": "loop", "mode": "add_ignores", "enable": run["meta"]["enable"], "extra_args": run["meta"].get("extra_args", [])}], hash=0, layout=0)
            try:
                events, end = self.execute(loop_only, "cli%d" % k)
            except launch.HarnessError as e:
                self.harness_errors.append("cli cross-check world: %s" % e)
                continue
            self.worlds_run += 1
            final = next((e["final"] for e in events if "final" in e), None)
            root = os.path.join(self.pyc.dir, "cli", "t%d" % k, "tree")
            shutil.rmtree(root, ignore_errors=True)
            os.makedirs(root)
            for name, text in run["files"].items():
                os.makedirs(os.path.dirname(os.path.join(root, name)), exist_ok=True)
                with open(os.path.join(root, name), "w", newline="") as f:
                    f.write(text)
            cmd = ["env", "-i", "PATH=/usr/bin:/bin", "PYTHONHASHSEED=0", "PYTHONDONTWRITEBYTECODE=1", "PYTHONPATH=%s:%s" % (launch.REPO, root),
                   launch.PYTHON, "-m", "pyanalyze", "-r", "--add-ignores"]
            for c in run["meta"]["enable"]:
                cmd += ["-e", c]
            cmd += list(run["meta"].get("extra_args", []))
            cmd.append(root)
            try:
                subprocess.run(cmd, capture_output=True, timeout=300, cwd="/")
            except subprocess.TimeoutExpired:
                self.harness_errors.append("cli cross-check timed out")
                continue
            got = {}
            for name in run["files"]:
                with open(os.path.join(root, name), newline="") as f:
                    got[name] = f.read()
            shutil.rmtree(root, ignore_errors=True)
            n += 1
            self.stats["cli_crosschecks"] += 1
            if got != final:
                self.stats["cli_crosscheck_mismatch"] += 1
                self.harness_errors.append("forked entry and real command line disagree on tree of run %d" % run["index"])

    # ------------------------------------------------------------------ triage
    def triage(self, runs, all_viol):
        known_entries = findings_mod.load(PROP)
        groups = collections.OrderedDict()
        for v in all_viol:
            groups.setdefault(v["signature"], []).append(v)
        self.stats["violations_raw"] = len(all_viol)
        violations, known = [], []
        minimised = 0
        for sig, group in groups.items():
            v = dict(group[0])
            v["occurrences"] = len(group)
            v["property"] = PROP
            entry = findings_mod.find(known_entries, {"signature": sig})
            if entry is not None:
                known.append((entry, v))
                continue
            run = runs[v["run"]]
            small = run
            if minimised < self.tier.max_minimise and time.time() - self.t0 < self.tier.wall_budget:
                try:
                    small = self.minimise(run, sig)
                    minimised += 1
                except launch.HarnessError as e:
                    self.harness_errors.append("minimise: %s" % e)
            self.write_replay(small, v, sig)
            violations.append(v)
        return violations, known

    def has_sig(self, cands, sig):
        res = self.run_many(cands, tagp="m")
        out = []
        for k in range(len(cands)):
            if k not in res:
                out.append(False)
                continue
            try:
                viols, _ = self.judge(cands[k], res[k][0])
            except Exception:
                out.append(False)
                continue
            out.append(any(v["signature"] == sig for v in viols))
        return out

    def minimise(self, run, sig):
        # 1. operations: units = non-probe ops, each followed by a probe under its enable set
        first_probe = run["ops"][0]
        units = [op for op in run["ops"][1:] if op["op"] != "probe"]

        def ops_from(us):
            ops = [first_probe]
            enable = first_probe.get("enable", [])
            for u in us:
                ops.append(u)
                if u["op"] in ("iter", "loop"):
                    enable = u.get("enable", enable)
                    ops.append({"op": "probe", "enable": enable})
            return ops

        def with_units(us):
            return dict(run, ops=ops_from(us))

        if self.has_sig([with_units(units)], sig)[0]:
            kept = ddmin(units, lambda cands: self.has_sig([with_units(c) for c in cands], sig))
            run = with_units(kept)
        # 2. files
        names = sorted(run["files"])
        if len(names) > 1:
            def with_files(ns):
                return dict(run, files={n: run["files"][n] for n in ns})
            kept = ddmin(names, lambda cands: [bool(c) and ok for c, ok in zip(cands, self.has_sig([with_files(c) if c else run for c in cands], sig))])
            if kept:
                run = with_files(kept)
        # 3. top-level blocks of each file
        from ..c10 import oracle as c10_oracle
        for name in sorted(run["files"]):
            blocks = c10_oracle.split_units(run["files"][name].replace("\r\n", "\n"))
            if len(blocks) <= 1 or "\r\n" in run["files"][name]:
                continue

            def with_blocks(bs, name=name):
                code = c10_oracle.join_units(bs)
                if code is None:
                    return None
                files = dict(run["files"])
                files[name] = code
                return dict(run, files=files)

            def test(cands):
                rs = [with_blocks(c) for c in cands]
                live = [x for x in rs if x is not None]
                got = iter(self.has_sig(live, sig)) if live else iter(())
                return [next(got) if x is not None else False for x in rs]
            kept = ddmin(blocks, test)
            cand = with_blocks(kept)
            if cand is not None and self.has_sig([cand], sig)[0]:
                run = cand
        return run

    def write_replay(self, run, v, sig):
        spec = {"files": run["files"], "ops": run["ops"], "layout_seed": run["layout"], "extra_args": (run.get("meta") or {}).get("extra_args", []),
                "links": (run.get("meta") or {}).get("links") or {}}
        rep = {"property": PROP, "seed": self.seed, "signature": sig, "oracle": v["oracle"], "detail": v["detail"], "hash": run["hash"],
               "spec": spec, "generator_meta": run.get("meta"), "before": v.get("before"), "after": v.get("after")}
        os.makedirs(os.path.join(launch.OUT, "replays"), exist_ok=True)
        tag = hashlib.sha256(sig.encode()).hexdigest()[:10]
        path = os.path.join(launch.OUT, "replays", "C16-%d-%s.json" % (self.seed, tag))
        with open(path, "w") as f:
            json.dump(rep, f, indent=1, sort_keys=True)
        v["replay"] = path

    # ------------------------------------------------------------------ reporting
    def finish(self, runs, results, violations, known):
        wall = time.time() - self.t0
        agg = collections.OrderedDict()
        for entry, v in known:
            agg.setdefault(entry.get("id"), [entry, 0])[1] += v["occurrences"]
        for eid, (entry, n) in agg.items():
            print("KNOWN-FINDING: property=%s %s [%s] (%d occurrence(s) this run)" % (PROP, entry.get("what", ""), eid, n), flush=True)
        nontrivial = set()
        for k in results:
            run = runs[k]
            events = results[k][0]
            first = next((e for e in events if e.get("op") == "probe"), None)
            f = oracles.failures_of(first.get("res")) if first else None
            changed = any(e.get("after") for e in events)
            if f and len(f) >= 2 and changed:
                schedule = tuple(sorted(collections.Counter((op["op"], op.get("mode"), bool(op.get("alt")), op.get("crash_after") is not None) for op in run["ops"] if op["op"] != "probe").items()))
                nontrivial.add((tuple(sorted(run["meta"]["atoms"])), tuple(sorted(set(run["meta"]["skeletons"]))), schedule))
        samples = []
        for k in sorted(results)[:2]:
            run = runs[k]
            samples.append({"run": run["index"], "files": {n: t[:1200] for n, t in run["files"].items()}, "ops": run["ops"], "hash_seed": run["hash"],
                            "style": run["info"]["style"], "atoms": run["meta"]["atoms"], "skeletons": run["meta"]["skeletons"]})
        zero_probes = sorted(a for a in list(generator.ATOMS) + ["asynq:" + x for x in generator.ASYNQ_ATOMS] if self.stats.get("atom_placed:%s" % a, 0) == 0)
        evidence = {
            "property_id": PROP, "tier": self.tier.name, "seed": self.seed, "level": "exploration", "wall_s": round(wall, 2), "violations": len(violations),
            "coverage": {
                "repo": launch.repo_provenance(),
                "evaluations": len(results),
                "distinct_nontrivial": len(nontrivial),
                "rule": "evaluation = one simulated run (generated file tree + seeded operation/fault sequence executed by real pyanalyze in forked process "
                        "lifetimes); distinct_nontrivial = distinct (atom multiset, skeleton set, schedule class) among runs whose tree has >= 2 diagnostics "
                        "and in which at least one change was applied",
                "samples": samples,
                "worlds": self.worlds_run,
                "runs_per_hour": round(len(results) / wall * 3600) if wall else 0,
                "pyanalyze_iterations": int(self.stats.get("iterations_total", 0)),
                "process_lifetimes": int(self.stats.get("lifetimes", 0)),
                "applied_changes": int(self.stats.get("applied_changes", 0)),
                "faults_fired": {k: int(self.stats.get(k, 0)) for k in ("restart", "iter_alt_fired", "crash_between_files_fired", "stale_module_continuation")},
                "fault_kinds_not_present_in_system": ["network faults", "clock skew/timers", "thread interleavings"],
                "torn_writes": "not injected: C16 quantifies over programs and iteration histories, not crash points inside one write (DESIGN.md 5.6)",
                "simulated_time": "not applicable: no timers in the system",
                "stats": {k: int(v) for k, v in sorted(self.stats.items())},
                "atoms_never_placed": zero_probes,
                "longest_loop_iterations": int(self.stats.get("loop_longest", 0)),
                "determinism_selftest": {"worlds_rerun": int(self.stats.get("selftest_worlds_rerun", 0)), "digest_mismatches": int(self.stats.get("selftest_digest_mismatches", 0))},
                "cli_crosschecks": int(self.stats.get("cli_crosschecks", 0)),
                "real_code": ["pyanalyze (NameCheckVisitor.main(), _run_and_apply_changes, _apply_changes_to_lines, show_error, fix producers)",
                              "CPython import system, file system under the scratch tree"],
                "stubbed": ["process start (fork of a pyanalyze-imported parent instead of exec; cross-checked against the real command line on a sample)",
                            "wall clock, secrets.token_hex", "interactive patch UI of -f (never entered)"],
                "known_findings_echoed": len(known),
                "harness_errors": self.harness_errors[:10],
            },
            "assumptions": ["sampling, not enumeration", "programs come from the generator's atom/skeleton grammar (DESIGN.md 5.2)",
                            "the in-process overrides of _run/_apply_changes only observe, rotate the change list and inject the crash; they call the real methods"],
        }
        os.makedirs(os.path.join(launch.OUT, "evidence"), exist_ok=True)
        with open(os.path.join(launch.OUT, "evidence", "C16.json"), "w") as f:
            json.dump(evidence, f, indent=1, sort_keys=True)
        self.log("runs=%d worlds=%d applied_changes=%d raw_violations=%d distinct=%d known=%d wall=%.1fs" % (
            len(results), self.worlds_run, self.stats.get("applied_changes", 0), self.stats.get("violations_raw", 0), len(violations), len(known), wall))
        if self.harness_errors:
            for e in self.harness_errors[:20]:
                print("HARNESS-ERROR %s" % e, flush=True)
            return 2
        for v in violations:
            print("  violation: %s (x%d) %s" % (v["signature"], v["occurrences"], v["detail"][:300]), flush=True)
            print("VIOLATION property=%s replay=%s" % (PROP, v.get("replay")), flush=True)
        return 1 if violations else 0


def replay(path):
    with open(path) as f:
        rep = json.load(f)
    pyc = launch.PycCache("c16r")
    try:
        spec = dict(rep["spec"], root=os.path.join(pyc.dir, "trees", "replay", "tree"), world_timeout=600)
        launch.run_world("c16", spec, 0, pyc.dir, write_bytecode=True)
        events, end = launch.run_world("c16", spec, rep["hash"], pyc.dir)
        print("world digest=%s" % end["digest"])
        files = dict(rep["spec"]["files"])
        files.update(rep["spec"].get("links") or {})
        viols, _ = oracles.judge({"files": files}, events)
        hit = [v for v in viols if v["signature"] == rep["signature"]]
        if hit:
            print("reproduced: %s\n%s" % (hit[0]["signature"], hit[0]["detail"]))
            print("VIOLATION property=%s replay=%s" % (PROP, path))
            return 1
        print("not reproduced (violations now: %s)" % [v["signature"] for v in viols])
        return 0
    finally:
        pyc.close()


def main(argv):
    if len(argv) >= 2 and argv[0] == "--replay":
        return replay(argv[1])
    tier = Tier(argv[0] if argv else os.environ.get("VERIF_TIER", "quick"))
    seed = int(os.environ.get("VERIF_SEED", "0"))
    workers = int(os.environ.get("VERIF_WORKERS", str(os.cpu_count() or 4)))
    print("VERIF_SEED=%d" % seed, flush=True)
    try:
        return Runner(tier, seed, workers).run()
    except launch.HarnessError as e:
        print("HARNESS-ERROR %s" % e, flush=True)
        return 2
    except Exception:
        print("HARNESS-ERROR unexpected: %s" % traceback.format_exc(), flush=True)
        return 2
