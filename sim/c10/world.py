"""C10 world: interprets an operation list against one shared pyanalyze Checker.

Operations (spec["ops"]):
  check   {pid, isolate, annotate}  check program pid via the in-memory route (the route the
                                    test-suite and plugins use).  isolate=True: in a forked
                                    child of the current process (the child's state dies with it).
  recheck {pid}                     run a new visitor over the module object of an earlier
                                    check of pid in this process (what `-n 2` does).
  files   {mode, pids, isolate}     write programs to a scratch tree and check them through
                                    NameCheckVisitor.main() (argv patched), mode all|each|n2.
  gc      {mode}                    gc.collect()/disable()/enable()
  junk    {seed}                    seeded heap perturbation between operations
  evict   {caches}                  clear memo caches (lead generator only, never judged alone)
"""
import ast
import json
import os
import re
import sys
import traceback

from .. import worldlib

BUDGET_TOOL = 4


class FaultOverrun(BaseException):
    """A stack-exhaustion fault sent the checker into a (practically) endless retry: end of world."""

TOKEN_RE = re.compile(r"<test input [0-9a-f]{8,}>")
FILE_RE = re.compile(r"\b[0-9a-f]{64}\.py")
ADDR_RE = re.compile(r"0x[0-9a-fA-F]{6,}")


class World:
    def __init__(self, spec, out):
        self.spec = spec
        self.out = out
        self.clock = worldlib.SimClock()
        self.tokens = worldlib.TokenSource()
        self.modules = {}
        self.scratch_norm = []

    # ---------------------------------------------------------------- boot
    def boot(self):
        spec = self.spec
        worldlib.install_seams(self.clock, self.tokens)
        made = worldlib.layout_junk(spec.get("layout_seed", 0), rounds=1 + spec.get("layout_seed", 0) % 3)
        self.repo = worldlib.setup_paths(spec)
        worldlib.install_qcore_seam(self.clock)
        import pyanalyze  # noqa: F401

        worldlib.assert_repo(self.repo)
        from pyanalyze import test_name_check_visitor as tncv
        from pyanalyze.error_code import DISABLED_IN_TESTS, ErrorCode
        from pyanalyze.name_check_visitor import ClassAttributeChecker

        self.tncv = tncv
        self.visitor_cls = tncv.ConfiguredNameCheckVisitor
        self.ClassAttributeChecker = ClassAttributeChecker
        self.settings = {code: code not in DISABLED_IN_TESTS for code in ErrorCode}
        for name, val in (spec.get("settings") or {}).items():
            self.settings[getattr(ErrorCode, name)] = bool(val)
        kwargs = self.visitor_cls.prepare_constructor_kwargs({"settings": dict(self.settings)})
        self.checker = kwargs["checker"]
        self.initial_argspec_keys = None
        try:
            self.initial_argspec_keys = dict(self.checker.arg_spec_cache.known_argspecs)
        except Exception:
            pass
        self.out.emit({"boot": True, "junk": made, "hashseed": os.environ.get("PYTHONHASHSEED"),
                       "layout_seed": spec.get("layout_seed", 0)})

    # ---------------------------------------------------------------- render
    def norm(self, text):
        text = TOKEN_RE.sub("<M>", text)
        text = FILE_RE.sub("<M>.py", text)
        text = ADDR_RE.sub("0xADDR", text)
        for path in self.scratch_norm:
            text = text.replace(path, "<S>")
        return text

    def render_failures(self, failures):
        diags = []
        for f in failures:
            code = f.get("code")
            diags.append([
                f.get("lineno"),
                f.get("col_offset"),
                getattr(code, "name", None) if code is not None else None,
                self.norm(str(f.get("message", f.get("description", "")))),
            ])
        return diags

    def collect_ann(self, tree):
        ann = []
        for node in ast.walk(tree):
            if isinstance(node, ast.Name) and isinstance(node.ctx, ast.Load):
                val = getattr(node, "inferred_value", None)
                if val is None:
                    continue
                try:
                    s = str(val)
                except Exception as e:  # pragma: no cover
                    s = "<str failed: %r>" % (e,)
                ann.append([node.lineno, node.col_offset, node.id, self.norm(s)])
        ann.sort(key=lambda r: (r[0], r[1], r[2]))
        return ann

    def invariants(self):
        ch = self.checker
        inv = {}
        try:
            inv["assumed"] = len(ch.assumed_compatibilities)
        except Exception:
            inv["assumed"] = None
        inv["exclude_any"] = bool(getattr(ch, "_should_exclude_any", False))
        inv["any_match"] = bool(getattr(ch, "_has_used_any_match", False))
        return inv

    # ---------------------------------------------------------------- in-memory route
    def run_visitor(self, pid, code, mod, annotate):
        tree = ast.parse(code, "<test input>")
        with self.ClassAttributeChecker(enabled=True, options=self.checker.options) as attribute_checker:
            visitor = self.visitor_cls(
                mod.__name__,
                code,
                tree,
                module=mod,
                attribute_checker=attribute_checker,
                settings=dict(self.settings),
                checker=self.checker,
                annotate=annotate,
                verbosity=50,
            )
            failures = visitor.check()
            failures = list(failures) + list(visitor.perform_final_checks({"checker": self.checker}))
        # errors shown by the attribute checker on exit land in visitor.all_failures
        seen = set(id(f) for f in failures)
        for f in visitor.all_failures:
            if id(f) not in seen:
                failures.append(f)
        obs = {"diags": self.render_failures(failures)}
        if annotate:
            obs["ann"] = self.collect_ann(tree)
        return obs

    def do_check(self, pid, annotate, stack=None):
        self.last_fault_calls = 0
        code = self.spec["programs"][pid]
        self.clock.reset()
        self.tokens.begin(pid)
        try:
            mod = self.tncv._make_module(code)
        except BaseException as e:
            return {"import_error": self.norm(repr(e))[:300]}
        self.modules[pid] = mod
        try:
            if stack:
                return self.limited(lambda: self.run_visitor(pid, code, mod, annotate), stack)
            return self.run_visitor(pid, code, mod, annotate)
        except FaultOverrun:
            return {"overrun": True}
        except BaseException as e:
            return {"escaped": self.norm("".join(traceback.format_exception_only(type(e), e)))[:500]}

    def do_recheck(self, pid, annotate):
        code = self.spec["programs"][pid]
        mod = self.modules.get(pid)
        if mod is None:
            return {"skipped": "no module"}
        self.clock.reset()
        self.tokens.begin(pid + "#re")
        try:
            return self.run_visitor(pid, code, mod, annotate)
        except BaseException as e:
            return {"escaped": self.norm("".join(traceback.format_exception_only(type(e), e)))[:500]}

    # ---------------------------------------------------------------- file route
    def do_files(self, op):
        """Check programs through the command-line entry point (argv patched)."""
        import shutil

        mode = op["mode"]
        pids = op["pids"]
        root = op["root"]
        shutil.rmtree(root, ignore_errors=True)
        os.makedirs(root)
        self.scratch_norm = [root]
        names = {}
        for k, pid in enumerate(pids):
            name = (op.get("names") or {}).get(pid) or "m%03d_%s.py" % (k, re.sub(r"\W", "_", pid)[-40:])
            names[pid] = os.path.join(root, name)
            # files may live in (nested) packages: every directory on the way gets an __init__.py
            d = os.path.dirname(names[pid])
            while d != root and not os.path.exists(os.path.join(d, "__init__.py")):
                os.makedirs(d, exist_ok=True)
                with open(os.path.join(d, "__init__.py"), "w") as f:
                    f.write("")
                d = os.path.dirname(d)
            with open(names[pid], "w") as f:
                f.write(self.spec["programs"][pid])
        if root not in sys.path:
            sys.path.insert(0, root)
        enable = []
        from pyanalyze.error_code import ErrorCode

        if op.get("overrides") is not None:
            # per-module option overrides through a configuration file (no -e/-d flags: the command
            # line would take precedence over the file)
            cfg = os.path.join(root, "verif_cfg.toml")
            base = os.path.join(self.repo, "pyanalyze", "test.toml")
            text = ["[tool.pyanalyze]", "extend_config = %s" % json.dumps(base), ""]
            for module, opts in op["overrides"]:
                text += ["[[tool.pyanalyze.overrides]]", "module = %s" % json.dumps(module)]
                for k, v in sorted(opts.items()):
                    text.append("%s = %s" % (k, json.dumps(v)))
                text.append("")
            with open(cfg, "w") as f:
                f.write("\n".join(text))
            enable = ["--config-file", cfg]
        else:
            for code in ErrorCode:
                enable += ["-e" if self.settings[code] else "-d", code.name]
        results = {}
        try:
            if mode == "each":
                for pid in pids:
                    results.update(self._main_once([names[pid]], enable, names, root, 1))
            elif mode == "n2":
                results.update(self._main_once([names[p] for p in pids], enable, names, root, 2))
            else:
                results.update(self._main_once([names[p] for p in pids], enable, names, root, 1))
        finally:
            shutil.rmtree(root, ignore_errors=True)
        return {"files": results}

    def _main_once(self, files, enable, names, root, n):
        json_out = os.path.join(root, "out.json")
        if os.path.exists(json_out):
            os.unlink(json_out)
        argv = ["pyanalyze", "--json-output", json_out] + enable
        if n != 1:
            argv += ["-n", str(n)]
        argv += files
        self.clock.reset()
        self.tokens.begin("files")
        old_argv = sys.argv
        sys.argv = argv
        try:
            try:
                rc = self.visitor_cls.main()
            except SystemExit as e:
                rc = "exit:%r" % (e.code,)
            except BaseException as e:
                rc = "raised:" + self.norm("".join(traceback.format_exception_only(type(e), e)))[:300]
        finally:
            sys.argv = old_argv
        by_file = {}
        inv = {v: k for k, v in names.items()}
        for fn in files:
            by_file[inv[fn]] = {"diags": [], "rc": rc if isinstance(rc, str) else None}
        if os.path.exists(json_out):
            with open(json_out) as f:
                data = json.load(f)
            for fail in data:
                fn = fail.get("absolute_filename") or fail.get("filename")
                pid = inv.get(fn)
                rec = [fail.get("lineno"), fail.get("col_offset"), fail.get("code"),
                       self.norm(str(fail.get("message", fail.get("description", ""))))]
                if pid is None:
                    by_file.setdefault("<other>", {"diags": [], "rc": None})["diags"].append(rec)
                else:
                    by_file[pid]["diags"].append(rec)
        return by_file

    # ---------------------------------------------------------------- eviction (lead generator)
    def do_evict(self, caches):
        done = {}
        ch = self.checker
        for name in caches:
            try:
                if name == "type_object":
                    ch.type_object_cache.clear()
                elif name == "protocol_positive":
                    n = 0
                    for to in list(ch.type_object_cache.values()):
                        c = getattr(to, "_protocol_positive_cache", None)
                        if c:
                            n += len(c)
                            c.clear()
                    done[name] = n
                    continue
                elif name == "argspec":
                    ka = ch.arg_spec_cache.known_argspecs
                    init = self.initial_argspec_keys
                    if init is None:
                        raise AttributeError("no snapshot")
                    ka.clear()
                    ka.update(init)
                elif name == "generic_bases":
                    ch.arg_spec_cache.generic_bases_cache.clear()
                elif name == "type_alias":
                    ch.type_alias_cache.clear()
                else:
                    done[name] = "unknown"
                    continue
                done[name] = True
            except Exception:
                done[name] = "not available"
        return done

    # ---------------------------------------------------------------- op loop
    def isolated(self, fn):
        r, w = os.pipe()
        pid = os.fork()
        if pid == 0:
            try:
                os.close(r)
                worldlib.child_after_fork(self.out, self.spec.get("op_timeout", 120))
                try:
                    res = fn()
                except BaseException as e:  # pragma: no cover
                    res = {"escaped": repr(e)[:300]}
                data = json.dumps(res).encode()
                view = memoryview(data)
                while view:
                    k = os.write(w, view)
                    view = view[k:]
            finally:
                os._exit(0)
        os.close(w)
        chunks = []
        while True:
            b = os.read(r, 1 << 16)
            if not b:
                break
            chunks.append(b)
        os.close(r)
        _, status = os.waitpid(pid, 0)
        raw = b"".join(chunks)
        if not raw:
            return {"child_died": status}
        try:
            return json.loads(raw)
        except Exception:
            return {"child_died": "bad output"}

    def direct(self, fn):
        """Counterpart of isolated() for operations on the shared state: the same number of Python
        frames sits below the check either way, so a program that exhausts the recursion limit
        does so at the same point in an isolated and in a shared-Checker world."""
        return fn()

    def limited(self, fn, margin):
        """Fault: stack exhaustion.  The check runs with only `margin` Python frames left, so the
        interpreter raises RecursionError at whatever point of the checker the stack runs out -
        what a deeply nested source, or a caller that is itself deep in the stack, does for real."""
        depth = 0
        f = sys._getframe()
        while f is not None:
            depth += 1
            f = f.f_back
        old = sys.getrecursionlimit()
        # Catch-all handlers at several levels of the checker each retry on RecursionError, which
        # can take exponentially long (and has ended in a C stack overflow): the faulted check gets a
        # budget of Python calls - a deterministic count, not a wall clock - and the world ends
        # (cleanly, with everything observed so far) when it is used up.
        mon = sys.monitoring
        budget = int(self.spec.get("fault_call_budget", 3000000))
        calls = [0]

        def on_start(code, offset):
            calls[0] += 1
            if calls[0] > budget:
                mon.set_events(BUDGET_TOOL, 0)
                raise FaultOverrun()

        mon.use_tool_id(BUDGET_TOOL, "verif-budget")
        mon.register_callback(BUDGET_TOOL, mon.events.PY_START, on_start)
        mon.set_events(BUDGET_TOOL, mon.events.PY_START)
        sys.setrecursionlimit(depth + margin)
        try:
            return fn()
        finally:
            sys.setrecursionlimit(old)
            mon.set_events(BUDGET_TOOL, 0)
            mon.register_callback(BUDGET_TOOL, mon.events.PY_START, None)
            mon.free_tool_id(BUDGET_TOOL)
            self.last_fault_calls = calls[0]

    def run(self):
        annotate_default = bool(self.spec.get("annotate", True))
        for i, op in enumerate(self.spec["ops"]):
            kind = op["op"]
            rec = {"i": i, "op": kind}
            if kind == "check":
                pid = op["pid"]
                rec["pid"] = pid
                ann = op.get("annotate", annotate_default)
                if op.get("isolate"):
                    rec["iso"] = True
                    rec["obs"] = self.isolated(lambda: self.do_check(pid, ann))
                elif op.get("stack"):
                    rec["stack"] = op["stack"]
                    rec["obs"] = self.direct(lambda: self.do_check(pid, ann, stack=op["stack"]))
                    rec["calls"] = getattr(self, "last_fault_calls", 0)
                    if "overrun" in rec["obs"]:
                        rec["aborted"] = True
                        self.out.emit(rec)
                        break
                    rec["inv"] = self.invariants()
                else:
                    rec["obs"] = self.direct(lambda: self.do_check(pid, ann))
                    rec["inv"] = self.invariants()
            elif kind == "recheck":
                pid = op["pid"]
                rec["pid"] = pid
                rec["obs"] = self.direct(lambda: self.do_recheck(pid, op.get("annotate", annotate_default)))
                rec["inv"] = self.invariants()
            elif kind == "files":
                rec["mode"] = op["mode"]
                if op.get("isolate", True):
                    rec["obs"] = self.isolated(lambda: self.do_files(op))
                else:
                    rec["obs"] = self.do_files(op)
            elif kind == "gc":
                worldlib.gc_point(op.get("mode", "collect"))
            elif kind == "junk":
                rec["made"] = worldlib.layout_junk(op.get("seed", 1), rounds=1)
            elif kind == "evict":
                rec["done"] = self.do_evict(op.get("caches", []))
            else:
                rec["error"] = "unknown op"
            self.out.emit(rec)


def main(spec, out):
    w = World(spec, out)
    w.boot()
    w.run()
