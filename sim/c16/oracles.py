"""C16 oracles, evaluated over the event log of a world (history checks).

S1 parses            after every applied change every file that parsed still parses
S2 comments only     add-ignores never changes the syntax tree
S3 proposer gone     the diagnostic that proposed the applied change is not reported by a fresh check
S4 nothing else      add-ignores: fresh diagnostics == previous fresh diagnostics minus the targeted
                     (line, code) group, shifted; autofix: exactly one statement differs, diagnostics
                     outside it are unchanged, and a per-code semantic check of the statement
S5 convergence       the -r --add-ignores loop ends by itself within N0+2 iterations, nothing remains
S6 own diagnostic    deleting one inserted comment brings back diagnostics of its code on its line only
Each violation carries a `signature` computed from the failing input itself (never from generator
metadata); KNOWN_FINDINGS.json entries match on it.
"""
import ast
import collections
import difflib
import re

from ..worldlib import pylines

IGNORE = "# static analysis: ignore"


def _nobom(text):
    """pyanalyze reads files as utf-8 and parses the encoded bytes; parse the str the same way."""
    return text[1:] if text.startswith("\ufeff") else text



def dkey(d):
    return (d["file"], d["line"], d["col"], d["code"], d["desc"])


def failures_of(res):
    if not isinstance(res, dict):
        return None
    sim = res.get("sim") or {}
    if res.get("raised") or res.get("died") or res.get("crashed"):
        return None
    return sim.get("failures")


def safe_dump(text):
    """AST dump, or None when the text is not valid Python.  `compile` is used on top of `ast.parse`
    because some errors ('await' outside async function, 'yield' inside a list comprehension,
    'return' outside function, nonlocal/global misuse) are raised by the compiler only."""
    try:
        tree = ast.parse(_nobom(text))
        compile(_nobom(text), "<c16-source>", "exec", dont_inherit=True)
        return ast.dump(tree)
    except (SyntaxError, ValueError):
        return None


# ---------------------------------------------------------------------------------------
# structural diff of two modules

def _stmts_diff(old_body, new_body, out):
    od = [ast.dump(s) for s in old_body]
    nd = [ast.dump(s) for s in new_body]
    if len(od) == len(nd):
        # same number of statements: compare position by position (a sequence matcher can pair up
        # the wrong twins when a body holds identical statements)
        for o, n, do, dn in zip(old_body, new_body, od, nd):
            if do == dn:
                continue
            if type(o) is type(n) and _descend(o, n, out):
                continue
            out.append(([o], [n]))
        return
    sm = difflib.SequenceMatcher(a=od, b=nd, autojunk=False)
    for tag, i1, i2, j1, j2 in sm.get_opcodes():
        if tag == "equal":
            continue
        olds, news = old_body[i1:i2], new_body[j1:j2]
        if len(olds) == 1 and len(news) == 1 and type(olds[0]) is type(news[0]) and _descend(olds[0], news[0], out):
            continue
        out.append((olds, news))


_BODY_FIELDS = ("body", "orelse", "finalbody", "handlers")


def _descend(old, new, out):
    """If old/new are compound statements with identical headers, diff their bodies instead."""
    has_body = [f for f in _BODY_FIELDS if getattr(old, f, None)]
    if not has_body:
        return False
    for field, value in ast.iter_fields(old):
        if field in _BODY_FIELDS:
            continue
        other = getattr(new, field, None)
        if _dump_any(value) != _dump_any(other):
            return False
    sub = []
    for f in _BODY_FIELDS:
        ob, nb = getattr(old, f, None) or [], getattr(new, f, None) or []
        if f == "handlers":
            if len(ob) != len(nb):
                return False
            for oh, nh in zip(ob, nb):
                if _dump_any(oh.type) != _dump_any(nh.type) or oh.name != nh.name:
                    return False
                _stmts_diff(oh.body, nh.body, sub)
        else:
            _stmts_diff(ob, nb, sub)
    out.extend(sub)
    return True


def _dump_any(v):
    if isinstance(v, ast.AST):
        return ast.dump(v)
    if isinstance(v, list):
        return [_dump_any(x) for x in v]
    return repr(v)


def module_diff(old_text, new_text):
    old, new = ast.parse(_nobom(old_text)), ast.parse(_nobom(new_text))
    out = []
    _stmts_diff(old.body, new.body, out)
    return out


def minimal_expr_pair(old, new):
    """Descend in parallel to the smallest differing sub-tree pair."""
    while True:
        if type(old) is not type(new):
            return old, new
        diffs = []
        for (f, ov), (_, nv) in zip(ast.iter_fields(old), ast.iter_fields(new)):
            if _dump_any(ov) != _dump_any(nv):
                diffs.append((ov, nv))
        if len(diffs) != 1:
            return old, new
        ov, nv = diffs[0]
        if isinstance(ov, list) and isinstance(nv, list):
            if len(ov) != len(nv):
                return old, new
            pairs = [(a, b) for a, b in zip(ov, nv) if _dump_any(a) != _dump_any(b)]
            if len(pairs) != 1 or not isinstance(pairs[0][0], ast.AST) or not isinstance(pairs[0][1], ast.AST):
                return old, new
            old, new = pairs[0]
        elif isinstance(ov, ast.AST) and isinstance(nv, ast.AST):
            old, new = ov, nv
        else:
            return old, new


ASYNQ_MERGE = {"duplicate_yield", "unnecessary_yield"}
ASYNQ_WRAP = {"task_needs_yield", "missing_await", "impure_async_call"}


def leaf_statements(tree):
    """Statements without a body, in source order."""
    out = []

    def walk(body):
        for s in body:
            if isinstance(s, (ast.FunctionDef, ast.AsyncFunctionDef, ast.ClassDef)):
                out.append(("def", s.name, [ast.dump(d) for d in s.decorator_list]))
                walk(s.body)
                continue
            sub = [getattr(s, f, None) for f in ("body", "orelse", "finalbody")]
            if any(isinstance(b, list) and b for b in sub):
                out.append(("head", type(s).__name__))
                for b in sub:
                    if isinstance(b, list):
                        walk(b)
                for h in getattr(s, "handlers", []) or []:
                    walk(h.body)
                continue
            out.append(s)
    walk(tree.body)
    return out


def _flatten_targets(t):
    if isinstance(t, (ast.Tuple, ast.List)):
        return [ast.unparse(e) for e in t.elts]
    return [ast.unparse(t)]


def yield_pairs(stmt):
    """(target, yielded expression) pairs of `t = yield e` / `a, b = yield e1, e2` / `yield e`."""
    value = getattr(stmt, "value", None)
    if not isinstance(stmt, (ast.Assign, ast.Expr)) or not isinstance(value, ast.Yield):
        return None
    y = value.value
    values = [ast.unparse(e) for e in y.elts] if isinstance(y, ast.Tuple) else ([ast.unparse(y)] if y is not None else [])
    if isinstance(stmt, ast.Expr):
        return [("_", v) for v in values]
    if len(stmt.targets) != 1:
        return [("?", ast.unparse(stmt))]
    targets = _flatten_targets(stmt.targets[0])
    if len(targets) == len(values) and len(targets) > 1:
        return list(zip(targets, values))
    if len(targets) == 1:
        return [(targets[0], "(%s)" % ", ".join(values) if len(values) > 1 else (values[0] if values else ""))]
    return [("?", ast.unparse(stmt))]


def yield_merge_preserved(old_text, new_text):
    """For the yield-batching fixes: every (name <- yielded task) binding is preserved, and the other
    statements are the same, in the same order."""
    old, new = ast.parse(_nobom(old_text)), ast.parse(_nobom(new_text))
    res = []
    for tree in (old, new):
        pairs = collections.Counter()
        others = []
        for s in leaf_statements(tree):
            if isinstance(s, tuple):
                others.append(repr(s))
                continue
            yp = yield_pairs(s)
            if yp is None:
                others.append(ast.dump(s))
            else:
                for t, v in yp:
                    pairs[(t if t != "_" else "_", v)] += 1
        res.append((pairs, others))
    (p_old, o_old), (p_new, o_new) = res
    # duplicate_yield: a task yielded twice is yielded once and the second name becomes an alias
    # (`b = a`); accept that when `a` is bound to the very same task expression
    missing = p_old - p_new
    # a task yielded twice into `_` is simply yielded once
    for (t, v), cnt in list(missing.items()):
        if t == "_" and p_new.get(("_", v), 0) > 0:
            del missing[(t, v)]
            p_old[(t, v)] = p_new[(t, v)]
        elif t == "_" and any(v2 == v for (_t2, v2) in p_new):
            # ... and a duplicate thrown away into `_` is dropped when the task stays yielded
            # under a real target (`x, _, _ = yield a, b, a` -> `x, _ = yield a, b`)
            del missing[(t, v)]
            del p_old[(t, v)]
            if p_new.get((t, v), 0):
                p_old[(t, v)] = p_new[(t, v)]
    if missing and not (p_new - p_old):
        alias_dumps = []
        ok = True
        for (t, v), cnt in missing.items():
            found = False
            for s2 in leaf_statements(new):
                if isinstance(s2, ast.Assign) and len(s2.targets) == 1 and ast.unparse(s2.targets[0]) == t and not isinstance(s2.value, ast.Yield):
                    src = ast.unparse(s2.value)
                    if p_new.get((src, v), 0) > 0:
                        found = True
                        alias_dumps.append(ast.dump(s2))
                        break
            ok = ok and found
        if ok:
            o_new2 = list(o_new)
            for d in alias_dumps:
                if d in o_new2:
                    o_new2.remove(d)
            if o_old == o_new2:
                return None
    if p_old != p_new:
        return "yield bindings changed: %s -> %s" % (sorted(p_old.elements())[:6], sorted(p_new.elements())[:6])
    if o_old != o_new:
        return "statements other than the merged yields changed"
    return None


class _StripAsync(ast.NodeTransformer):
    def visit_Yield(self, node):
        self.generic_visit(node)
        return node.value if node.value is not None else node

    def visit_Await(self, node):
        self.generic_visit(node)
        return node.value

    def visit_YieldFrom(self, node):
        self.generic_visit(node)
        return node.value

    def visit_Attribute(self, node):
        self.generic_visit(node)
        if node.attr == "asynq":
            return node.value
        return node

    def visit_FunctionDef(self, node):
        self.generic_visit(node)
        node.decorator_list = [d for d in node.decorator_list if ast.unparse(d) not in ("asynq()",)]
        return node


def strip_async_dump(text):
    return ast.dump(_StripAsync().visit(ast.parse(_nobom(text))))


class _Env(dict):
    """Local namespace for evaluating a statement's expressions outside their function: parameters
    have their defaults, names of the module and builtins resolve normally (KeyError here sends the
    lookup on to the globals), any other name - a local of the function - is 1."""

    def __init__(self, glob, **kw):
        super().__init__(**kw)
        self.glob = glob

    def __missing__(self, key):
        import builtins

        if key.startswith("undefined_") or key == "__builtins__" or key in self.glob or hasattr(builtins, key):
            raise KeyError(key)
        return 1


def eval_equal(module_text, old_expr, new_expr):
    """Evaluate both expressions in the module's namespace; returns (comparable, equal, detail)."""
    if not isinstance(old_expr, ast.expr) or not isinstance(new_expr, ast.expr):
        return False, None, "not expressions"
    import warnings

    glob = {}
    try:
        with warnings.catch_warnings():
            warnings.simplefilter("ignore")
            exec(compile(_nobom(module_text), "<c16-oracle>", "exec"), glob)
    except BaseException as e:
        return False, None, "module did not execute: %r" % (e,)
    results = []
    for expr in (old_expr, new_expr):
        env = _Env(glob, p=3, q="w", pair=(4, 5))
        try:
            code = compile(ast.Expression(body=expr), "<c16-expr>", "eval")
            calls = glob.get("CALLS")
            if isinstance(calls, list):
                del calls[:]
            with warnings.catch_warnings():
                warnings.simplefilter("ignore")
                value = repr(eval(code, glob, env))
            # the helpers of the generated modules log their calls: order and multiplicity of the
            # operand evaluations are part of the comparison
            results.append(("value", value, repr(list(calls)) if isinstance(calls, list) else ""))
        except BaseException as e:
            results.append(("raised", type(e).__name__))
    return True, results[0] == results[1], "%s vs %s" % (results[0], results[1])


_ADDR = re.compile(r"0x[0-9a-fA-F]+")


def changed_function_behaviour(old_text, new_text, limit_s=5):
    """Run-time oracle for fixes that must not change what a function does (yield batching): every
    module-level function whose tree differs between the two texts is CALLED with its defaults in
    both modules; outcome (returned value or exception type), printed text and the multiset of logged
    helper calls must agree.  Returns (n_compared, problem or None)."""
    import contextlib
    import io
    import signal
    import threading
    import warnings

    try:
        old_tree, new_tree = ast.parse(_nobom(old_text)), ast.parse(_nobom(new_text))
    except SyntaxError:
        return 0, None
    old_f = {n.name: ast.dump(n) for n in old_tree.body if isinstance(n, ast.FunctionDef)}
    new_f = {n.name: ast.dump(n) for n in new_tree.body if isinstance(n, ast.FunctionDef)}
    names = sorted(n for n in old_f if n in new_f and old_f[n] != new_f[n])
    if not names:
        return 0, None

    class _Timeout(BaseException):
        pass

    def on_alarm(signum, frame):
        raise _Timeout()

    can_alarm = threading.current_thread() is threading.main_thread()
    outcomes = []
    for text in (old_text, new_text):
        res = {}
        glob = {"__name__": "c16_oracle_module"}
        buf = io.StringIO()
        prev = signal.signal(signal.SIGALRM, on_alarm) if can_alarm else None
        try:
            if can_alarm:
                signal.alarm(limit_s)
            with warnings.catch_warnings(), contextlib.redirect_stdout(buf), contextlib.redirect_stderr(io.StringIO()):
                warnings.simplefilter("ignore")
                try:
                    exec(compile(_nobom(text), "<c16-oracle>", "exec", dont_inherit=True), glob)
                except _Timeout:
                    return 0, None
                except BaseException as e:
                    return 0, None
                for name in names:
                    calls = glob.get("CALLS")
                    if isinstance(calls, list):
                        del calls[:]
                    buf.seek(0)
                    buf.truncate()
                    try:
                        out = ("returned", repr(glob[name]()))
                    except _Timeout:
                        return 0, None
                    except BaseException as e:
                        out = ("raised", type(e).__name__)
                    res[name] = ((out[0], _ADDR.sub("0x?", out[1])), _ADDR.sub("0x?", buf.getvalue()), sorted(map(repr, calls)) if isinstance(calls, list) else None)
        finally:
            if can_alarm:
                signal.alarm(0)
                signal.signal(signal.SIGALRM, prev)
        outcomes.append(res)
    for name in names:
        if outcomes[0][name] != outcomes[1][name]:
            return len(names), "%s() behaves differently after the fix: %r -> %r" % (name, outcomes[0][name][:2], outcomes[1][name][:2])
    return len(names), None


# ---------------------------------------------------------------------------------------
# cause classifiers: signatures computed from the failing input itself

def classify_s1_add_ignores(before, first):
    lines = pylines(before)
    L = first["del"][0]
    prev = lines[L - 2] if L >= 2 and L - 2 < len(lines) else ""
    if prev.rstrip().endswith("\\"):
        return "comment-inserted-after-backslash-continuation"
    return "unclassified"


def classify_s1_autofix(before, first):
    lines = pylines(before)
    dels = first["del"]
    if first["add"] and any("(yield " in a for a in first["add"]) and "impure async call" in str(first.get("error")):
        try:
            tree = ast.parse(_nobom(before))
        except SyntaxError:
            tree = None
        if tree is not None:
            for node in ast.walk(tree):
                if isinstance(node, (ast.ListComp, ast.SetComp, ast.DictComp, ast.GeneratorExp, ast.Lambda)) and node.lineno <= dels[-1] and getattr(node, "end_lineno", node.lineno) >= dels[0]:
                    return "yield-inserted-inside-comprehension-or-lambda"
    if first["add"] and dels and dels[0] - 1 < len(lines):
        old_line = lines[dels[0] - 1]
        if old_line.startswith("\t") and any(a.startswith(" ") for a in first["add"]):
            return "replacement-indented-with-spaces-in-tab-indented-file"
    if not first["add"] and dels:
        # deleted statement was the only statement of its block?
        try:
            tree = ast.parse(_nobom(before))
        except SyntaxError:
            return "unclassified"
        for node in ast.walk(tree):
            for f in ("body", "orelse", "finalbody"):
                body = getattr(node, f, None)
                if isinstance(body, list) and len(body) == 1 and isinstance(body[0], ast.stmt) and body[0].lineno == dels[0] and not isinstance(node, ast.Module):
                    return "deleted-only-statement-of-block"
    return "unclassified"


def nested_yield_on_lines(text, linenos):
    """Is there, on the rewritten lines, a `yield` buried inside a larger expression (not the whole
    value of an assignment / expression statement)?  The yield-batching fix then first hoists it."""
    try:
        tree = ast.parse(_nobom(text))
    except SyntaxError:
        return False
    lineset = set(linenos)
    for stmt in ast.walk(tree):
        if not isinstance(stmt, ast.stmt) or stmt.lineno not in lineset:
            continue
        # `x += yield t` and `return (yield t)` need the hoisting step as well
        direct = getattr(stmt, "value", None) if isinstance(stmt, (ast.Assign, ast.AnnAssign, ast.Expr)) else None
        for node in ast.walk(stmt):
            if isinstance(node, ast.Yield) and node is not direct and not isinstance(stmt, (ast.FunctionDef, ast.AsyncFunctionDef, ast.If, ast.For, ast.While, ast.With, ast.Try)):
                return True
    return False


def removed_marker_line_inside_string(before, after):
    """Was a line that merely LOOKS like an ignore comment, but lies inside a multi-line string
    literal, removed between before and after?"""
    b, a = pylines(before), pylines(after)
    sm = difflib.SequenceMatcher(a=b, b=a, autojunk=False)
    for tag, i1, i2, j1, j2 in sm.get_opcodes():
        if tag in ("delete", "replace"):
            for k in range(i1, i2):
                if IGNORE in b[k] and line_inside_multiline_string(before, k + 1):
                    return True
    return False


def line_inside_multiline_string(text, lineno, strict_end=True):
    """Is physical line `lineno` a continuation line of a string literal spanning several lines
    (so that no comment can be put directly above it)?"""
    try:
        tree = ast.parse(_nobom(text))
    except SyntaxError:
        return False
    for node in ast.walk(tree):
        if isinstance(node, (ast.Constant, ast.JoinedStr)) and getattr(node, "end_lineno", None) is not None:
            if isinstance(node, ast.Constant) and not isinstance(node.value, (str, bytes)):
                continue
            if node.lineno < lineno <= node.end_lineno:
                return True
    return False


def line_has_semicolon_stmts(text, lineno):
    """Does more than one statement start on this physical line (`a = 1; b = 2`, or a one-line
    compound statement `if c: stmt`)?  The fixer assumes a statement owns its lines."""
    try:
        tree = ast.parse(_nobom(text))
    except SyntaxError:
        return False
    n = 0
    for node in ast.walk(tree):
        if isinstance(node, ast.stmt) and node.lineno == lineno:
            n += 1
    return n >= 2


# ---------------------------------------------------------------------------------------

class Judge:
    def __init__(self, spec, events):
        self.spec = spec
        self.events = [e for e in events if "i" in e]
        self.violations = []
        self.stats = collections.Counter()
        self.texts = dict(spec["files"])
        self.parse_ok = {k: safe_dump(v) is not None for k, v in self.texts.items()}
        self.last_probe = None
        self.last_probe_enable = None
        self.pending = None
        self.broken = False

    def add(self, oracle, step, signature, detail, **extra):
        v = {"oracle": oracle, "step": step, "signature": "%s:%s" % (oracle, signature), "detail": detail}
        v.update(extra)
        self.violations.append(v)

    def run(self):
        for e in self.events:
            op = e["op"]
            if self.broken:
                break
            if op == "probe":
                self.on_probe(e)
            elif op == "iter":
                self.on_iter(e)
            elif op == "loop":
                self.on_loop(e)
            elif op == "s6":
                self.on_s6(e)
            elif op == "restart":
                self.stats["restart"] += 1
            for name, text in (e.get("after") or {}).items():
                self.texts[name] = text
            for name, is_link in (e.get("links") or {}).items():
                if (not is_link or not (e.get("link_targets_in_sync") or {}).get(name, True)) and not getattr(self, "_link_reported", False):
                    self._link_reported = True
                    self.add("S1", e["i"], "symlink-replaced-or-target-out-of-sync", "%s was a symbolic link to a file outside the checked directory; after the %s step it is %s" % (
                        name, op, "a regular file (the real file was left untouched)" if not is_link else "out of sync with its target"), file=name)
        return self.violations

    # -- probes close the S3/S4 obligations of the preceding iteration -----------------------
    def on_probe(self, e):
        f = failures_of(e.get("res"))
        enable = tuple(e.get("enable", []))
        if f is None:
            self.stats["probe_failed"] += 1
            if self.pending is not None:
                self.add("S1", e["i"], "fresh-check-died-after-change", "fresh check after the change did not complete: %s" % str(e.get("res"))[:300])
            self.pending = None
            self.last_probe = None
            return
        if self.pending is not None and not self.pending.get("loop") and self.last_probe is not None and self.last_probe_enable == enable:
            self.judge_pending(e["i"], self.last_probe, f)
        self.pending = None
        self.last_probe = f
        self.last_probe_enable = enable

    def on_iter(self, e):
        res = e.get("res") or {}
        sim = res.get("sim") or {}
        mode = e.get("mode")
        self.stats["iter_%s" % mode] += 1
        if e.get("stale_continuation"):
            self.stats["stale_module_continuation"] += 1
        if e.get("alt"):
            self.stats["iter_alt_requested"] += 1
        if sim.get("alt_fired"):
            self.stats["iter_alt_fired"] += 1
        if res.get("crashed"):
            self.stats["crash_between_files_fired"] += 1
        if res.get("raised"):
            # pyanalyze itself raised during an iteration on a tree that parsed
            self.add("S1", e["i"], "iteration-raised", "iteration raised: %s" % res["raised"][:300])
        before = e.get("before") or {}
        after = e.get("after") or {}
        for name in list(after):
            if name in before and before[name].replace("\r\n", "\n") == after[name].replace("\r\n", "\n"):
                # pyanalyze rewrites every file it has a change list for, in text mode: CRLF becomes LF
                self.stats["rewrite_only_converted_line_endings"] += 1
                del after[name]
        applied = {a["file"]: a for a in sim.get("applied", []) if "first" in a and a["first"].get("add") is not None}
        if not after:
            self.stats["iter_no_change"] += 1
            self.pending = None
            return
        self.stats["applied_changes"] += len(after)
        for name in after:
            a = applied.get(name)
            if a is None:
                self.add("S4", e["i"], "file-changed-without-recorded-change", "file %s changed but no change was recorded" % name)
                continue
            first = a["first"]
            # S1
            if self.parse_ok.get(name, True) and safe_dump(after[name]) is None:
                sig = classify_s1_add_ignores(before[name], first) if mode == "add_ignores" else classify_s1_autofix(before[name], first)
                self.add("S1", e["i"], "%s:%s" % (mode, sig), "file %s no longer parses after %s change %r" % (name, mode, first), file=name,
                         before=before[name], after=after[name])
                self.parse_ok[name] = False
                self.broken = True
                continue
            # S2
            if mode == "add_ignores" and safe_dump(before[name]) != safe_dump(after[name]):
                sig = "ast-changed"
                if line_inside_multiline_string(before[name], first["del"][0]):
                    sig = "comment-inserted-inside-multiline-string"
                if removed_marker_line_inside_string(before[name], after[name]):
                    sig = "ignore-text-inside-multiline-string-removed-as-unused-comment"
                self.add("S2", e["i"], "add_ignores:%s" % sig, "add-ignores changed the syntax tree of %s" % name, file=name, before=before[name], after=after[name])
        self.pending = {"mode": mode, "before": before, "after": after, "applied": applied, "step": e["i"]}

    def judge_pending(self, step, P, P2):
        pend = self.pending
        mode = pend["mode"]
        for name, new_text in pend["after"].items():
            a = pend["applied"].get(name)
            if a is None:
                continue
            first = a["first"]
            dels = first["del"]
            desc = first["error"]
            old_text = pend["before"][name]
            targets = [d for d in P if d["file"] == name and d["desc"] == desc and d["line"] is not None and dels[0] <= d["line"] <= dels[-1]]
            if not targets:
                # the yield-batching fix that moves the FIRST yield down next to the second rewrites the
                # lines up to, but not including, the line of the yield the diagnostic is reported on
                targets = [d for d in P if d["file"] == name and d["desc"] == desc and d["line"] == dels[-1] + 1 and d["code"] in ASYNQ_MERGE]
            if not targets:
                self.stats["phantom_target_skipped"] += 1
                continue
            code = targets[0]["code"]
            Pf = [d for d in P if d["file"] == name]
            P2f = [d for d in P2 if d["file"] == name]
            inserts_comment = mode == "add_ignores" and any(IGNORE in a for a in (first["add"] or []))
            if mode == "add_ignores" and not inserts_comment:
                # under add-ignores, errors that ignore comments cannot silence (unused_ignore) keep
                # their own replacement: judge it as the autofix it is
                self.stats["add_ignores_step_applied_own_replacement"] += 1
            if inserts_comment:
                L = dels[0]
                # own-line form inserts one line above L; the trailing form (used next to the file
                # header) rewrites L in place
                shift = len(pylines("".join(first["add"]))) - len(dels)
                # S3
                still = [d for d in P2f if d["line"] == L + shift and d["code"] == code]
                if still:
                    self.add("S3", step, "add_ignores:diagnostic-still-reported", "%s: %s at line %d still reported after its ignore comment was added" % (name, code, L),
                             file=name, before=old_text, after=new_text)
                    continue
                # S4
                expect = collections.Counter()
                for d in Pf:
                    if d["line"] == L and d["code"] == code:
                        continue
                    nd = dict(d)
                    if d["line"] is not None and d["line"] >= L:
                        nd["line"] = d["line"] + shift
                    expect[dkey(nd)] += 1
                got = collections.Counter(dkey(d) for d in P2f)
                if expect != got:
                    lost = sorted((expect - got).elements())
                    gained = sorted((got - expect).elements())
                    sig = "unclassified"
                    old_lines = pylines(old_text)
                    if code == "attribute_is_never_set" and not lost and gained and all(k[3] == "unused_ignore" and k[1] == L for k in gained):
                        # the comment just added for a diagnostic of the end-of-run attribute checker
                        # is reported as unused by the file's own pass, which runs earlier
                        sig = "late-attribute-checker-diagnostic-vs-unused-ignore"
                    if L >= 2 and old_lines[L - 2].strip().startswith(IGNORE) and any(k[3] == "unused_ignore" or k[1] == L + 1 for k in gained):
                        sig = "second-comment-displaced-first:two-codes-on-one-line"
                    if L == 1 or all(l.startswith("#") or not l.strip() for l in pylines(old_text)[: L - 1]):
                        if lost and all(k[3] == code for k in lost) and not gained:
                            sig = "comment-in-header-became-file-level-ignore"
                    self.add("S4", step, "add_ignores:%s" % sig, "%s: other diagnostics changed: lost %s gained %s" % (name, lost[:4], gained[:4]),
                             file=name, before=old_text, after=new_text)
                else:
                    self.stats["S3S4_add_ignores_ok"] += 1
            else:
                self.judge_autofix(step, name, old_text, new_text, first, code, desc, Pf, P2f)

    def judge_autofix(self, step, name, old_text, new_text, first, code, desc, Pf, P2f):
        dels = first["del"]
        # an element of the additions may hold several physical lines
        adds = pylines("".join(first["add"]), True)
        # S3: strictly fewer diagnostics with this code+description
        n_old = sum(1 for d in Pf if d["code"] == code and d["desc"] == desc)
        n_new = sum(1 for d in P2f if d["code"] == code and d["desc"] == desc)
        behaviour_checked = False
        if code in ASYNQ_MERGE and not line_has_semicolon_stmts(old_text, dels[0]):
            # whatever else a yield-batching step does (hoist, move, merge - also the intermediate
            # steps recorded as C16-K5): the function it rewrites must keep doing what it did
            behaviour_checked = True
            n_called, behaviour = changed_function_behaviour(old_text, new_text)
            self.stats["S4_yield_fix_functions_called"] += n_called
            if behaviour:
                self.add("S4", step, "autofix:%s:function-behaves-differently" % code, "%s: %s" % (name, behaviour), file=name, before=old_text, after=new_text)
                return
        if n_new >= n_old:
            sig = "diagnostic-still-reported"
            if code in ASYNQ_MERGE:
                # the yield-batching fix works in steps: the first application may only hoist a nested
                # yield into its own assignment, or move a yield next to the one it will be merged
                # with; recognised by: every (name <- task) binding and every other statement preserved
                try:
                    pure_move = yield_merge_preserved(old_text, new_text) is None
                except SyntaxError:
                    pure_move = False
                if nested_yield_on_lines(old_text, dels) or pure_move:
                    sig = "multi-step-batching:diagnostic-still-reported"
            self.add("S3", step, "autofix:%s:%s" % (code, sig), "%s: %r still reported %d time(s) after its fix was applied" % (name, desc, n_new),
                     file=name, before=old_text, after=new_text)
            return
        # S4a: diagnostics outside the replaced lines are unchanged (shifted).  The change deletes the
        # lines in `dels` (not necessarily contiguous) and inserts `adds` after the highest of them.
        delset = set(dels)
        top = max(dels)

        def new_line(l):
            below = sum(1 for x in dels if x < l)
            return l - below + (len(adds) if l > top else 0)

        region_start = top - len(dels) + 1
        expect = collections.Counter()
        for d in Pf:
            if d["line"] is None:
                expect[dkey(d)] += 1
            elif d["line"] not in delset:
                nd = dict(d)
                nd["line"] = new_line(d["line"])
                expect[dkey(nd)] += 1
        got = collections.Counter()
        for d in P2f:
            if d["line"] is None or d["line"] < region_start or d["line"] >= region_start + len(adds):
                got[dkey(d)] += 1
        # an ignore comment that named the diagnostic just fixed is now unused: a legitimate new
        # unused_ignore report (only when that code is enabled), not collateral damage
        new_lines = pylines(new_text)
        deletion = all(a.strip() in ("", "pass") for a in adds)
        for k in [k for k in got if k[3] == "unused_ignore" and k not in expect]:
            ln = k[1]
            names = ASYNQ_MERGE if code in ASYNQ_MERGE else {code}
            if ln is not None and 1 <= ln <= len(new_lines) and any(("ignore[%s]" % c) in new_lines[ln - 1] for c in names):
                del got[k]
                self.stats["stale_ignore_after_fix"] += 1
            elif deletion and ln is not None and ln == dels[0] - 1 and 1 <= ln <= len(new_lines) and new_lines[ln - 1].strip().startswith(IGNORE):
                # the statement that an own-line ignore comment stood above was deleted by the
                # fix: whatever that comment silenced is gone with it
                del got[k]
                self.stats["stale_ignore_above_deleted_statement"] += 1
        if code in ASYNQ_MERGE or code in ASYNQ_WRAP:
            # batching yields, or adding one, legitimately changes the neighbouring yield-batching
            # diagnostics (they are about which yields could be combined)
            expect = collections.Counter({k: v for k, v in expect.items() if k[3] not in ASYNQ_MERGE})
            got = collections.Counter({k: v for k, v in got.items() if k[3] not in ASYNQ_MERGE})
        if expect != got:
            lost = sorted((expect - got).elements())
            gained = sorted((got - expect).elements())
            sig = "unclassified"
            if line_has_semicolon_stmts(old_text, dels[0]):
                sig = "rewritten-line-shared-with-other-statement"
            if code == "unused_ignore" and not lost and gained and all(k[3] == "attribute_is_never_set" for k in gained):
                # the "unused" comment was the one silencing a diagnostic of the end-of-run attribute
                # checker (C16-K6): removing it brings that diagnostic back
                sig = "late-attribute-checker-diagnostic-vs-unused-ignore"
            self.add("S4", step, "autofix:%s:%s" % (code, sig), "%s: diagnostics outside the fixed statement changed: lost %s gained %s" % (name, lost[:4], gained[:4]),
                     file=name, before=old_text, after=new_text)
            return
        shared = line_has_semicolon_stmts(old_text, dels[0])

        def fail(signature, detail, **kw):
            # a statement that shares its physical line with another one (`a; b`, `if c: stmt`) is a
            # recorded defect of the fixer (C16-K2): whatever goes wrong there carries that signature
            if shared:
                signature = "autofix:%s:rewritten-line-shared-with-other-statement" % code
            self.add("S4", step, signature, detail, **kw)

        # S4b: exactly one statement differs
        try:
            diffs = module_diff(old_text, new_text)
        except SyntaxError:
            return
        if code in ASYNQ_MERGE:
            n_called, behaviour = (0, None) if behaviour_checked else changed_function_behaviour(old_text, new_text)
            self.stats["S4_yield_fix_functions_called"] += n_called
            if behaviour:
                fail("autofix:%s:function-behaves-differently" % code, "%s: %s" % (name, behaviour), file=name, before=old_text, after=new_text)
                return
            problem = yield_merge_preserved(old_text, new_text)
            if problem:
                fail("autofix:%s:bindings-not-preserved" % code, "%s: %s" % (name, problem), file=name, before=old_text, after=new_text)
            else:
                self.stats["S4_autofix_ok"] += 1
            return
        if code in ASYNQ_WRAP or code == "missing_asynq":
            if strip_async_dump(old_text) != strip_async_dump(new_text):
                fail("autofix:%s:more-than-the-wrapper-changed" % code, "%s: the fix changed more than adding yield/await/.asynq/@asynq()" % name,
                     file=name, before=old_text, after=new_text)
            else:
                self.stats["S4_autofix_ok"] += 1
            return
        if code == "unused_ignore":
            if diffs:
                sig = "ast-changed"
                if removed_marker_line_inside_string(old_text, new_text):
                    sig = "ignore-text-inside-multiline-string-removed-as-unused-comment"
                fail("autofix:unused_ignore:%s" % sig, "%s: removing an unused ignore comment changed the syntax tree" % name, file=name, before=old_text, after=new_text)
            else:
                self.stats["S4_autofix_ok"] += 1
            return
        if len(diffs) != 1:
            sig = "unclassified"
            if line_has_semicolon_stmts(old_text, dels[0]):
                sig = "rewritten-line-shared-with-other-statement"
            fail("autofix:%s:%s" % (code, sig if diffs else "no-ast-change"), "%s: %d statement sites differ after one fix" % (name, len(diffs)),
                     file=name, before=old_text, after=new_text)
            return
        olds, news = diffs[0]
        if len(olds) != len(news) and news and line_has_semicolon_stmts(old_text, dels[0]):
            fail("autofix:%s:rewritten-line-shared-with-other-statement" % code, "%s: %d statements became %d" % (name, len(olds), len(news)),
                     file=name, before=old_text, after=new_text)
            return
        if code == "unused_variable":
            ok = False
            removed = len(olds) == 1 and (not news or (len(news) == 1 and isinstance(news[0], ast.Pass)))
            if removed and isinstance(olds[0], ast.Assign) and len(olds[0].targets) == 1 and isinstance(olds[0].targets[0], ast.Name):
                ok = ("Variable %s " % olds[0].targets[0].id) in desc
            elif removed and isinstance(olds[0], ast.If) and len(olds[0].body) == 1 and not olds[0].orelse and isinstance(olds[0].body[0], ast.Assign) \
                    and olds[0].lineno == olds[0].body[0].lineno:
                # one-line `if c: unused = 1`: removed together with its `if` (accepted, DESIGN.md section 7)
                ok = True
            elif len(olds) == 1 and len(news) == 1:
                o, n = minimal_expr_pair(olds[0], news[0])
                ok = isinstance(o, ast.Name) and isinstance(n, ast.Name) and n.id == "_" and ("Variable %s " % o.id) in desc
            if not ok and line_has_semicolon_stmts(old_text, dels[0]):
                fail("autofix:unused_variable:rewritten-line-shared-with-other-statement", "%s: %s -> %s" % (
                    name, [ast.unparse(s) for s in olds][:3], [ast.unparse(s) for s in news][:3]), file=name, before=old_text, after=new_text)
            elif not ok:
                fail("autofix:unused_variable:not-the-intended-change", "%s: change is not the removal of the unused assignment: %s -> %s" % (
                    name, [ast.unparse(s) for s in olds][:3], [ast.unparse(s) for s in news][:3]), file=name, before=old_text, after=new_text)
            else:
                self.stats["S4_autofix_ok"] += 1
            return
        if code == "missing_f" and len(olds) == 1 and len(news) == 1:
            o, n = minimal_expr_pair(olds[0], news[0])
            ok = isinstance(o, ast.Constant) and isinstance(o.value, str) and isinstance(n, ast.JoinedStr)
            if ok:
                try:
                    want = ast.parse("f" + repr(o.value), mode="eval").body
                    ok = ast.dump(want) == ast.dump(n)
                except SyntaxError:
                    ok = False
            if not ok:
                fail("autofix:missing_f:not-the-f-string-of-the-same-template", "%s: `%s` -> `%s`" % (name, ast.unparse(o), ast.unparse(n)),
                         file=name, before=old_text, after=new_text)
            else:
                self.stats["S4_autofix_ok"] += 1
            return
        if len(olds) == 1 and len(news) == 1:
            o, n = minimal_expr_pair(olds[0], news[0])
            if code in ("use_fstrings", "too_many_positional_args") and not (isinstance(o, ast.expr) and isinstance(n, ast.expr)):
                # these fixes rewrite ONE expression; if the smallest differing pair is a whole
                # statement, something else in it changed as well (decorators, other fields)
                fail("autofix:%s:more-than-the-expression-changed" % code, "%s: `%s` -> `%s`" % (name, ast.unparse(olds[0])[:200], ast.unparse(news[0])[:200]),
                     file=name, before=old_text, after=new_text)
                return
            comparable, equal, detail = eval_equal(old_text, o, n)
            if comparable and not equal:
                fail("autofix:%s:replacement-evaluates-differently" % code, "%s: `%s` -> `%s`: %s" % (name, ast.unparse(o), ast.unparse(n), detail),
                         file=name, before=old_text, after=new_text)
            elif comparable:
                self.stats["S4_autofix_eval_equal"] += 1
                self.stats["S4_autofix_ok"] += 1
            else:
                self.stats["S4_autofix_not_evaluable"] += 1
        else:
            fail("autofix:%s:statement-count-changed" % code, "%s: %d statements became %d" % (name, len(olds), len(news)), file=name, before=old_text, after=new_text)

    # -- the -r loop --------------------------------------------------------------------------
    def on_loop(self, e):
        res = e.get("res") or {}
        sim = res.get("sim") or {}
        mode = e.get("mode")
        self.stats["loop_%s" % mode] += 1
        before = e.get("before") or {}
        after = e.get("after") or {}
        for name in after:
            if self.parse_ok.get(name, True) and safe_dump(after[name]) is None:
                sig = "unclassified"
                # find which inserted comment broke it: a comment line right after a backslash
                lines = pylines(after[name])
                for k in range(1, len(lines)):
                    if lines[k].strip().startswith(IGNORE) and lines[k - 1].rstrip().endswith("\\"):
                        sig = "comment-inserted-after-backslash-continuation"
                self.add("S1", e["i"], "%s:%s" % (mode, sig), "file %s no longer parses after the -r loop" % name, file=name, before=before.get(name), after=after[name])
                self.parse_ok[name] = False
                self.broken = True
        if self.broken:
            return
        if mode != "add_ignores":
            self.pending = None
            return
        P = self.last_probe
        per_file = collections.Counter()
        groups = collections.defaultdict(set)
        for d in P or []:
            groups[d["file"]].add((d["line"], d["code"]))
        n0 = max([len(g) for g in groups.values()] or [0])
        self.loop_n0 = n0
        self.stats["loop_longest"] = max(self.stats["loop_longest"], sim.get("iterations", 0))
        if res.get("raised") or res.get("died"):
            sig = "unclassified"
            if "Iteration Limit" in str(res.get("raised")):
                sig = "iteration-limit"
                if "unused_ignore" in (e.get("enable") or []) and any(d["code"] == "attribute_is_never_set" for d in P or []):
                    sig = "iteration-limit:late-attribute-checker-diagnostic-vs-unused-ignore"
                # two different codes on one line?
                by_line = collections.defaultdict(set)
                for d in P or []:
                    by_line[(d["file"], d["line"])].add(d["code"])
                alternating = False
                for text in after.values():
                    ls = [l.strip() for l in pylines(text)]
                    for a, b in zip(ls, ls[1:]):
                        if a.startswith(IGNORE + "[") and b.startswith(IGNORE + "[") and a != b:
                            alternating = True
                if any(len(c) >= 2 for c in by_line.values()) or alternating:
                    sig = "iteration-limit:two-codes-on-one-line"
                if "unused_ignore" in (e.get("enable") or []) and any(d["code"] == "attribute_is_never_set" for d in P or []):
                    sig = "iteration-limit:late-attribute-checker-diagnostic-vs-unused-ignore"
            self.add("S5", e["i"], "add_ignores:%s" % sig, "the -r --add-ignores loop did not terminate by itself: %s" % str(res.get("raised") or "lifetime died")[:300],
                     after=after)
            self.broken = True
            return
        if P is not None and sim.get("iterations", 0) > n0 + 2:
            self.add("S5", e["i"], "add_ignores:too-many-iterations", "loop took %d iterations for at most %d (line, code) groups in one file" % (sim.get("iterations"), n0))
        for name in after:
            if name in before and safe_dump(before[name]) != safe_dump(after[name]):
                sig = "ast-changed"
                if removed_marker_line_inside_string(before[name], after[name]):
                    sig = "ignore-text-inside-multiline-string-removed-as-unused-comment"
                after_lines = pylines(after[name])
                for k, l in enumerate(after_lines):
                    if l.strip().startswith(IGNORE) and line_inside_multiline_string(after[name], k + 1, strict_end=False):
                        sig = "comment-inserted-inside-multiline-string"
                self.add("S2", e["i"], "add_ignores:%s" % sig, "the add-ignores loop changed the syntax tree of %s" % name, file=name, before=before[name], after=after[name])
        self.pending = {"loop": True, "step": e["i"]}
        self.after_loop = True

    def on_s6(self, e):
        if self.last_probe is None:
            return
        if self.last_probe:
            # something remained after the loop: S5
            self.add("S5", e["i"], "add_ignores:diagnostics-remain", "after the loop a fresh check still reports %s" % [dkey(d) for d in self.last_probe[:4]])
            return
        for rec in e.get("res") or []:
            self.stats["s6_comments_checked"] += 1
            F = rec.get("failures")
            if F is None:
                self.add("S6", e["i"], "probe-failed", "probe without comment %r at %s:%d failed: %s" % (rec["comment"], rec["file"], rec["line"], rec.get("raised")))
                continue
            m = re.match(re.escape(IGNORE) + r"\[([a-z_]+)\]$", rec["comment"])
            code = m.group(1) if m else None
            target = rec.get("target_line", rec["line"])
            foreign = [d for d in F if not (d["file"] == rec["file"] and d["line"] == target and (code is None or d["code"] == code))]
            if foreign:
                sig = "unclassified"
                text = self.texts.get(rec["file"], "")
                header = all(l.startswith("#") or not l.strip() for l in pylines(text)[: rec["line"] - 1])
                if header and all(d["file"] == rec["file"] and d["code"] == code for d in foreign):
                    sig = "comment-in-header-became-file-level-ignore"
                self.add("S6", e["i"], "add_ignores:%s" % sig, "deleting %r at %s:%d brings back diagnostics elsewhere: %s" % (
                    rec["comment"], rec["file"], rec["line"], [dkey(d) for d in foreign[:4]]), file=rec["file"], after=text)
            elif not F:
                self.stats["s6_dead_comments"] += 1
            else:
                self.stats["s6_ok"] += 1


def judge(spec, events):
    j = Judge(spec, events)
    j.run()
    # a probe right after the loop with remaining diagnostics and no s6 op
    return j.violations, j.stats
