#!/usr/bin/env python3
"""Sensitivity self-test (development / thorough tier): break each claimed property on purpose in
a scratch worktree OUTSIDE /repo and /verif, confirm that the quick check reports a VIOLATION
within its budget, remove the worktree.  Also runs every kept seeded change under
/verif/seeded/*/patch.diff the same way.

usage: selftest/sensitivity.py [name ...]      (no names: all built-in mutants + all seeded)
exit 0 iff every mutant was caught (exit 1 + VIOLATION line from the check).
"""
import glob
import json
import os
import shutil
import subprocess
import sys
import tempfile

VERIF = os.path.dirname(os.path.dirname(os.path.abspath(__file__)))
REPO = os.environ.get("VERIF_REPO_SRC", "/repo")

# name -> (property, file, old, new)
MUTANTS = {
    "c10_unite_values_set": ("C10", "pyanalyze/value.py",
        "    existing = list(hashable_vals) + unhashable_vals\n",
        "    existing = list(set(hashable_vals)) + unhashable_vals\n"),
    "c10_assume_never_popped": ("C10", "pyanalyze/checker.py",
        "            new_pair = self.assumed_compatibilities.pop()\n            assert pair == new_pair\n",
        "            pass\n"),
    "c10_typeobject_cache_by_name": ("C10", "pyanalyze/checker.py",
        "        if in_cache:\n            return self.type_object_cache[typ]\n        type_object = self._build_type_object(typ)\n        self.type_object_cache[typ] = type_object\n        return type_object\n",
        "        key = getattr(typ, \"__name__\", typ)\n        if key in self.type_object_cache:\n            return self.type_object_cache[key]\n        type_object = self._build_type_object(typ)\n        self.type_object_cache[key] = type_object\n        return type_object\n"),
    "c10_protocol_cache_key": ("C10", "pyanalyze/type_object.py",
        "            cache_key = (self_val, other_val)\n",
        "            cache_key = other_val\n"),
    "c10_kwargs_set": ("C10", "pyanalyze/signature.py",
        "            extra_kwargs = [\n                key for key in actual_args.keywords if key not in keywords_consumed\n            ]\n",
        "            extra_kwargs = set(actual_args.keywords) - keywords_consumed\n"),
    "c16_prev_line_off_by_one": ("C16", "pyanalyze/node_visitor.py",
        "            prev_index = lineno - 2\n",
        "            prev_index = lineno - 3\n"),
    "c16_insert_offset": ("C16", "pyanalyze/node_visitor.py",
        "                lines = [*lines[:max_line], *additions, *lines[max_line:]]\n",
        "                lines = [*lines[: max_line - 1], *additions, *lines[max_line - 1 :]]\n"),
    "c16_no_pass_for_only_statement": ("C16", "pyanalyze/node_visitor.py",
        "        if self._is_only_statement_in_block(current_statement):\n",
        "        if False and self._is_only_statement_in_block(current_statement):\n"),
    "c16_header_comment_own_line": ("C16", "pyanalyze/node_visitor.py",
        "                if all(line.startswith(\"#\") for line in lines[: lineno - 1]):\n",
        "                if False:\n"),
}

QUICK_ENV = {
    "C10": {"VERIF_C10_GEN": "260", "VERIF_C10_HIST": "16", "VERIF_C10_FILES": "4", "VERIF_C10_MAXMIN": "1", "VERIF_C10_MAXSITES": "2"},
    "C16": {"VERIF_C16_RUNS": "200", "VERIF_C16_MAXMIN": "1"},
}


def scratch_root():
    base = "/dev/shm" if os.path.isdir("/dev/shm") else tempfile.gettempdir()
    return tempfile.mkdtemp(prefix="verif-sens-", dir=base)


def run_check(prop, repo_dir):
    env = dict(os.environ)
    if not os.environ.get("SENS_FULL"):
        env.update(QUICK_ENV[prop])
    env["VERIF_REPO"] = repo_dir
    env["VERIF_SENSITIVITY"] = "1"
    env["VERIF_OUT"] = os.path.join(os.path.dirname(repo_dir), "verif-out")
    p = subprocess.run([os.path.join(VERIF, "check"), prop, "quick"], env=env, capture_output=True, text=True, timeout=3000)
    viol = [l for l in p.stdout.splitlines() if l.startswith("VIOLATION")]
    detail = [l.strip()[:260] for l in p.stdout.splitlines() if l.startswith("  violation:")]
    return p.returncode, viol + detail, p.stdout[-1500:]


def with_worktree(fn):
    root = scratch_root()
    wt = os.path.join(root, "wt")
    subprocess.run(["git", "-C", REPO, "worktree", "add", "-q", "--detach", wt, "HEAD"], check=True)
    try:
        return fn(wt)
    finally:
        subprocess.run(["git", "-C", REPO, "worktree", "remove", "--force", wt])
        shutil.rmtree(root, ignore_errors=True)


def main(names):
    results = {}
    todo = []
    for name, (prop, path, old, new) in MUTANTS.items():
        if names and name not in names:
            continue
        todo.append(("mutant", name, prop, (path, old, new)))
    for patch_path in sorted(glob.glob(os.path.join(VERIF, "seeded", "*", "patch.diff"))):
        name = os.path.basename(os.path.dirname(patch_path))
        if names and name not in names:
            continue
        meta_path = os.path.join(os.path.dirname(patch_path), "meta.json")
        if os.path.exists(meta_path):
            meta = json.load(open(meta_path))
            if meta.get("obsolete"):
                print("%-40s SKIPPED (obsolete: %s)" % (name, meta["obsolete"]), flush=True)
                continue
            prop = meta["property"]
        else:
            prop = "C10" if name[0] in "acegikm" else "C16"
        todo.append(("seeded", name, prop, patch_path))
    ok = True
    for kind, name, prop, payload in todo:
        def job(wt):
            if kind == "mutant":
                path, old, new = payload
                full = os.path.join(wt, path)
                src = open(full).read()
                if src.count(old) != 1:
                    return None, [], "mutant anchor not found (%d matches)" % src.count(old)
                open(full, "w").write(src.replace(old, new))
            else:
                r = subprocess.run(["git", "-C", wt, "apply", payload], capture_output=True, text=True)
                if r.returncode:
                    # context moved by later repairs: fall back to a three-way merge (clean merges only)
                    r = subprocess.run(["git", "-C", wt, "apply", "--3way", payload], capture_output=True, text=True)
                    subprocess.run(["git", "-C", wt, "reset", "-q"], capture_output=True)
                if r.returncode:
                    return None, [], "patch does not apply: %s" % r.stderr[-300:]
            return run_check(prop, wt)
        rc, viol, tail = with_worktree(job)
        caught = rc == 1 and bool(viol)
        results[name] = {"property": prop, "kind": kind, "exit": rc, "caught": caught, "violations": viol[:8]}
        print("%-40s %s exit=%s %s" % (name, "CAUGHT" if caught else "MISSED", rc, [v for v in viol if not v.startswith("VIOLATION")][:4] or tail[-300:].replace("\n", " | ")), flush=True)
        ok = ok and caught
    out = os.path.join(VERIF, "selftest", "sensitivity_last.json")
    with open(out, "w") as f:
        json.dump(results, f, indent=1, sort_keys=True)
    return 0 if ok else 1


if __name__ == "__main__":
    sys.exit(main(sys.argv[1:]))
