from typing import Any, Union

from pyanalyze.extensions import evaluated, is_of_type, is_provided, show_error


@evaluated
def strict_int(x: object):
    if is_of_type(x, int, exclude_any=True):
        return int
    else:
        return str


@evaluated
def lenient_int(x: object):
    if is_of_type(x, int):
        return int
    else:
        return str


@evaluated
def with_default(x: int, y: str = ""):
    if is_provided(y):
        return str
    else:
        return int


@evaluated
def complain(x: object):
    if is_of_type(x, str):
        show_error("strings not welcome", argument=x)
        return None
    else:
        return int


def strict_int_impl(x: object) -> Union[int, str]:
    return 0
