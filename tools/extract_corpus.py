#!/usr/bin/env python3
"""Static extraction of the @assert_passes() bodies of pyanalyze's own tests.

Run once; the result is frozen in /verif/corpus/snippets.json so that later
edits to /repo cannot change the workload.  The test modules are never
imported.  Vetting (tree-independent: looks only at the snippet text/AST):
see EXCLUDED.md written next to the corpus.
"""
import ast
import glob
import json
import os
import sys
import textwrap

REPO = sys.argv[1] if len(sys.argv) > 1 else "/repo"
OUT = os.path.join(os.path.dirname(os.path.abspath(__file__)), "..", "corpus")

CLOCKY = {"time", "datetime", "random", "secrets", "uuid", "os", "sys", "tempfile", "subprocess", "socket", "threading", "multiprocessing"}
# names whose use inside the snippet means its own execution depends on the world
BAD_CALLS = {"now", "today", "utcnow", "time", "urandom", "getpid", "environ", "getenv", "register", "setattr", "delattr", "__setattr__"}


def is_plain_assert_passes(dec):
    return (
        isinstance(dec, ast.Call)
        and isinstance(dec.func, ast.Name)
        and dec.func.id == "assert_passes"
        and not dec.args
        and not dec.keywords
    )


def has_any_assert_passes(dec):
    return isinstance(dec, ast.Call) and isinstance(dec.func, ast.Name) and dec.func.id == "assert_passes"


def vet(code):
    """Return None if acceptable else a reason string."""
    try:
        tree = ast.parse(code)
    except SyntaxError as e:
        return "does not parse stand-alone: %s" % e.msg
    for node in ast.walk(tree):
        if isinstance(node, (ast.Set, ast.SetComp)):
            return "set display/comprehension: snippet's own runtime repr may be hash-order dependent"
        if isinstance(node, ast.Call) and isinstance(node.func, ast.Name) and node.func.id in ("set", "frozenset") and node.args:
            return "set()/frozenset() of values at run time: hash-order dependent repr"
        if isinstance(node, ast.Call):
            f = node.func
            name = f.attr if isinstance(f, ast.Attribute) else (f.id if isinstance(f, ast.Name) else None)
            if name in BAD_CALLS:
                return "calls %s(): reads clock/environment or mutates foreign state" % name
        if isinstance(node, ast.Attribute) and node.attr in ("environ", "argv", "modules", "path") and isinstance(node.value, ast.Name) and node.value.id in ("os", "sys"):
            return "touches %s.%s" % (node.value.id, node.attr)
    # module level: only imports, defs, classes, assignments, expression statements
    # that are not calls into foreign mutators, if/try around imports
    for stmt in tree.body:
        if isinstance(stmt, (ast.Import, ast.ImportFrom, ast.FunctionDef, ast.AsyncFunctionDef, ast.ClassDef, ast.Assign, ast.AnnAssign, ast.AugAssign, ast.Pass)):
            continue
        if isinstance(stmt, ast.Expr) and isinstance(stmt.value, ast.Constant):
            continue
        if isinstance(stmt, (ast.If, ast.Try, ast.With, ast.For, ast.While, ast.Expr, ast.Assert, ast.Delete, ast.Global)):
            # allowed if it contains no attribute stores on names not defined here
            for n in ast.walk(stmt):
                if isinstance(n, ast.Attribute) and isinstance(n.ctx, (ast.Store, ast.Del)):
                    return "module-level attribute store: may mutate state outside the snippet"
            continue
        tn = type(stmt).__name__
        if tn in ("TypeAlias", "Match"):
            continue
        return "module-level %s" % tn
    return None


def main():
    snippets = []
    excluded = []
    for path in sorted(glob.glob(os.path.join(REPO, "pyanalyze", "test_*.py"))):
        src = open(path, encoding="utf-8").read()
        lines = src.splitlines(keepends=True)
        tree = ast.parse(src)
        base = os.path.basename(path)
        for cls in tree.body:
            if not isinstance(cls, ast.ClassDef):
                continue
            bases = [ast.unparse(b) for b in cls.bases]
            for fn in cls.body:
                if not isinstance(fn, ast.FunctionDef):
                    continue
                decs = fn.decorator_list
                if not any(has_any_assert_passes(d) for d in decs):
                    continue
                sid = "%s::%s::%s" % (base[:-3], cls.name, fn.name)
                if not any(is_plain_assert_passes(d) for d in decs) or len(decs) != 1:
                    excluded.append((sid, "custom settings or extra decorators (%s)" % ", ".join(ast.unparse(d) for d in decs)))
                    continue
                if bases != ["TestNameCheckVisitorBase"]:
                    excluded.append((sid, "test class uses another visitor class (bases %s)" % bases))
                    continue
                body = "".join(lines[fn.lineno : fn.end_lineno])
                code = textwrap.dedent(body)
                if not code.endswith("\n"):
                    code += "\n"
                reason = vet(code)
                if reason:
                    excluded.append((sid, reason))
                    continue
                snippets.append({"id": sid, "code": code})
    os.makedirs(OUT, exist_ok=True)
    with open(os.path.join(OUT, "snippets.json"), "w") as f:
        json.dump(snippets, f, indent=0, sort_keys=True)
        f.write("\n")
    with open(os.path.join(OUT, "EXCLUDED.md"), "w") as f:
        f.write("# Test snippets left out of the frozen corpus, with the reason\n\n")
        f.write("Vetting looks at the snippet only (never at what pyanalyze says about it).\n")
        f.write("Further snippets are excluded at run time only if *importing* them fails or\n")
        f.write("differs between two identical worlds (recorded in evidence as `unstable_programs`).\n\n")
        for sid, reason in excluded:
            f.write("* `%s` — %s\n" % (sid, reason))
    print("kept", len(snippets), "excluded", len(excluded))


if __name__ == "__main__":
    main()
