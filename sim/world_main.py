"""Entry point of a world process.  argv[1] = kind (c10|c16); spec JSON on stdin."""
import importlib
import json
import os
import sys
import traceback

sys.path.insert(0, os.path.dirname(os.path.dirname(os.path.abspath(__file__))))


def main():
    kind = sys.argv[1]
    spec = json.load(sys.stdin)
    from sim import worldlib

    out = worldlib.Out()
    worldlib.arm_watchdog(int(spec.get("world_timeout", 900)))
    try:
        mod = importlib.import_module("sim.%s.world" % kind)
        mod.main(spec, out)
    except BaseException:
        out.emit({"fatal": traceback.format_exc()[-4000:]})
    out.finish()
    os._exit(0)


main()
