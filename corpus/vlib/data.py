import enum
from dataclasses import dataclass, field
from typing import Dict, List, NamedTuple, NewType, Optional, Union

from typing_extensions import NotRequired, Required, TypedDict

UserId = NewType("UserId", int)
Token = NewType("Token", str)

IntOrStr = Union[int, str]
Json = Union[None, bool, int, float, str, List["Json"], Dict[str, "Json"]]


class Color(enum.Enum):
    RED = 1
    GREEN = 2
    BLUE = 3


class Suit(enum.Enum):
    CLUBS = "c"
    DIAMONDS = "d"
    HEARTS = "h"
    SPADES = "s"


class Level(enum.IntEnum):
    LOW = 1
    MID = 2
    HIGH = 3


class Movie(TypedDict):
    title: str
    year: int


class PartialMovie(TypedDict, total=False):
    title: str
    year: int
    rating: float


class Mixed(TypedDict):
    ident: int
    label: NotRequired[str]
    tags: NotRequired[List[str]]


class Point(NamedTuple):
    x: int
    y: int
    label: str = ""


@dataclass
class Account:
    owner: str
    balance: int = 0
    tags: List[str] = field(default_factory=list)


@dataclass(frozen=True)
class Frozen:
    a: int
    b: str


class Animal:
    legs: int = 4
    name: str

    def __init__(self, name: str) -> None:
        self.name = name

    def speak(self, loud: bool = False) -> str:
        return ""

    @property
    def tag(self) -> str:
        return self.name

    @classmethod
    def make(cls, name: str) -> "Animal":
        return cls(name)

    @staticmethod
    def kinds() -> List[str]:
        return []


class Dog(Animal):
    def speak(self, loud: bool = False) -> str:
        return "woof"

    def fetch(self, what: str) -> str:
        return what


class Cat(Animal):
    def purr(self) -> None:
        pass


class Fish:
    fins: int = 2

    def swim(self, depth: int) -> int:
        return depth


class Base:
    def method(self, x: int) -> int:
        return x

    def other(self, x: int, y: str = "") -> str:
        return y


class Stack:
    def __init__(self) -> None:
        self.items: List[int] = []

    def push(self, item: int) -> None:
        self.items.append(item)

    def pop(self) -> Optional[int]:
        return None

    def __len__(self) -> int:
        return 0

    def __getitem__(self, i: int) -> int:
        return 0
