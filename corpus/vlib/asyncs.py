from typing import List

from asynq import asynq


@asynq()
def fetch(uid: int) -> str:
    return ""


@asynq()
def fetch_many(uids: List[int]) -> List[str]:
    return []


def sync_fetch(uid: int) -> str:
    return ""


async def aio_fetch(uid: int) -> str:
    return ""


class Service:
    @asynq()
    def load(self, key: str) -> int:
        return 0

    def plain(self, key: str) -> int:
        return 0
