#!/usr/bin/env python3
"""Reach measurement (development tool): which lines of pyanalyze does the C10 workload execute,
and in particular which *order-sensitive sites* (set/frozenset construction, set iteration, .pop()
on sets, id()-keyed containers) were reached.  Uses sys.monitoring (PEP 669) line events, each
disabled after its first hit, inside one ordinary (non-world) process.

usage: /venv/bin/python tools/reach.py [n_generated]   -> writes tools/reach_last.json, prints a summary
"""
import ast
import collections
import json
import os
import re
import sys

VERIF = os.path.dirname(os.path.dirname(os.path.abspath(__file__)))
sys.path.insert(0, VERIF)
sys.path.insert(0, os.path.join(VERIF, "corpus"))
REPO = os.environ.get("VERIF_REPO", "/repo")
sys.path.insert(0, REPO)

hits = collections.defaultdict(set)
PKG = os.path.join(os.path.realpath(REPO), "pyanalyze") + os.sep


def on_line(code, line):
    fn = code.co_filename
    if fn.startswith(PKG):
        hits[fn].add(line)
    return sys.monitoring.DISABLE


def main():
    n_gen = int(sys.argv[1]) if len(sys.argv) > 1 else 600
    devnull = open(os.devnull, "w")
    sys.stderr = devnull
    from sim.c10 import workload
    import pyanalyze  # noqa
    from pyanalyze import test_name_check_visitor as tncv
    from pyanalyze.error_code import DISABLED_IN_TESTS, ErrorCode
    from pyanalyze.name_check_visitor import ClassAttributeChecker

    mon = sys.monitoring
    mon.use_tool_id(3, "verif-reach")
    mon.register_callback(3, mon.events.LINE, on_line)
    mon.set_events(3, mon.events.LINE)

    settings = {code: code not in DISABLED_IN_TESTS for code in ErrorCode}
    kwargs = tncv.ConfiguredNameCheckVisitor.prepare_constructor_kwargs({"settings": dict(settings)})
    checker = kwargs["checker"]
    programs = list(workload.load_corpus())
    gen, _ = workload.generate(0, n_gen)
    programs += sorted(gen.items())
    codes = collections.Counter()
    for pid, code in programs:
        try:
            mod = tncv._make_module(code)
            tree = ast.parse(code)
            with ClassAttributeChecker(enabled=True, options=checker.options) as ac:
                v = tncv.ConfiguredNameCheckVisitor(mod.__name__, code, tree, module=mod, attribute_checker=ac, settings=dict(settings), checker=checker, verbosity=50)
                fails = v.check()
            for f in v.all_failures:
                c = f.get("code")
                codes[getattr(c, "name", "?")] += 1
        except BaseException:
            pass
    mon.set_events(3, 0)
    sys.stderr = sys.__stderr__

    site_re = re.compile(r"\bset\(|frozenset\(|\.pop\(\)|id\(|\bin set\b|sorted\(|\.difference\(|\.union\(|\| *set|- *set|dict\.fromkeys")
    report = {"files": {}, "unreached_order_sites": [], "codes_produced": dict(codes)}
    total_exec = total_lines = 0
    for path in sorted(os.listdir(PKG)):
        if not path.endswith(".py") or path.startswith("test_") or path in ("tests.py",):
            continue
        full = PKG + path
        src = open(full).read().splitlines()
        try:
            tree = ast.parse("\n".join(src))
        except SyntaxError:
            continue
        stmt_lines = {n.lineno for n in ast.walk(tree) if isinstance(n, ast.stmt)}
        got = hits.get(full, set())
        ex = len(stmt_lines & got)
        report["files"][path] = {"statement_lines": len(stmt_lines), "executed": ex}
        total_exec += ex
        total_lines += len(stmt_lines)
        for ln in sorted(stmt_lines):
            text = src[ln - 1]
            if site_re.search(text) and ln not in got:
                report["unreached_order_sites"].append("%s:%d: %s" % (path, ln, text.strip()[:120]))
    all_codes = [c.name for c in ErrorCode]
    report["codes_never_produced"] = sorted(c for c in all_codes if c not in codes)
    report["total"] = {"statement_lines": total_lines, "executed": total_exec}
    with open(os.path.join(VERIF, "tools", "reach_last.json"), "w") as f:
        json.dump(report, f, indent=1, sort_keys=True)
    print("statement lines executed: %d / %d (%.1f%%)" % (total_exec, total_lines, 100.0 * total_exec / total_lines))
    for k, v in sorted(report["files"].items(), key=lambda kv: kv[1]["executed"] / max(1, kv[1]["statement_lines"])):
        print("  %-28s %5d / %5d" % (k, v["executed"], v["statement_lines"]))
    print("codes never produced:", report["codes_never_produced"])
    print("unreached order-sensitive sites: %d" % len(report["unreached_order_sites"]))
    for s in report["unreached_order_sites"]:
        print("   ", s)


main()
