"""C16 world: pyanalyze + a directory of source files.

Durable state = the files of the scratch tree.  Volatile state = a *process lifetime*: a child
forked from this (pyanalyze-imported, nothing-checked) process that runs real
NameCheckVisitor.main() with a patched argv, keeps its sys.modules / Checker caches between
iterations and dies at `restart` (or at an injected crash).

Operations (spec["ops"]):
  probe                      fresh lifetime, plain check (no rewriting): diagnostics per file
  iter  {mode, alt, enable, crash_after}
                             one check-and-apply iteration in the current lifetime;
                             mode autofix|add_ignores; alt=j rotates each file's proposed changes so
                             that the j-th applicable one is first (pyanalyze applies changes[0]);
                             crash_after=k kills the lifetime after k files were rewritten
  loop  {mode, enable}       pyanalyze's own -r loop to its own termination
  restart                    end the lifetime (only files survive)
  s6                         for every inserted own-line ignore comment: delete it (in a copy of the
                             file), probe, restore
The world only executes and logs; all judging is done by sim/c16/oracles.py over the log.
"""
import ast
import json
import os
import shutil
import sys
import traceback

from .. import worldlib

from ..worldlib import pylines

IGNORE = "# static analysis: ignore"


def _nobom(text):
    """pyanalyze reads files as utf-8 and parses the encoded bytes; parse the str the same way."""
    return text[1:] if text.startswith("\ufeff") else text



class SimCrash(BaseException):
    pass


class Lifetime:
    """Parent-side handle of a forked lifetime child: JSON lines over two pipes."""

    def __init__(self, world):
        self.world = world
        p2c_r, p2c_w = os.pipe()
        c2p_r, c2p_w = os.pipe()
        pid = os.fork()
        if pid == 0:
            os.close(p2c_w)
            os.close(c2p_r)
            try:
                worldlib.child_after_fork(world.out, world.spec.get("lifetime_timeout", 300))
                world.child_main(p2c_r, c2p_w)
            finally:
                os._exit(0)
        os.close(p2c_r)
        os.close(c2p_w)
        self.pid = pid
        self.w = os.fdopen(p2c_w, "w")
        self.r = os.fdopen(c2p_r, "r")
        self.alive = True

    def call(self, op):
        if not self.alive:
            return {"dead": True}
        try:
            self.w.write(json.dumps(op) + "\n")
            self.w.flush()
            line = self.r.readline()
        except (BrokenPipeError, OSError):
            line = ""
        if not line:
            self.close()
            return {"died": True}
        return json.loads(line)

    def close(self):
        if not self.alive:
            return
        self.alive = False
        try:
            self.w.close()
        except Exception:
            pass
        try:
            self.r.close()
        except Exception:
            pass
        try:
            os.waitpid(self.pid, 0)
        except ChildProcessError:
            pass


class World:
    def __init__(self, spec, out):
        self.spec = spec
        self.out = out
        self.clock = worldlib.SimClock()
        self.tokens = worldlib.TokenSource()
        self.root = spec["root"]
        self.lifetime = None
        self.lifetimes = 0

    # ------------------------------------------------------------------ boot (parent)
    def boot(self):
        worldlib.install_seams(self.clock, self.tokens)
        worldlib.layout_junk(self.spec.get("layout_seed", 0))
        self.repo = worldlib.setup_paths(self.spec)
        worldlib.install_qcore_seam(self.clock)
        import pyanalyze  # noqa: F401

        worldlib.assert_repo(self.repo)
        from pyanalyze import name_check_visitor  # noqa: F401

        shutil.rmtree(self.root, ignore_errors=True)
        os.makedirs(self.root)
        for name, text in self.spec["files"].items():
            os.makedirs(os.path.dirname(os.path.join(self.root, name)), exist_ok=True)
            with open(os.path.join(self.root, name), "w", newline="") as f:
                f.write(text)
        # files reached through a symbolic link whose target lives outside the checked directory
        self.shared = self.root + "_shared"
        shutil.rmtree(self.shared, ignore_errors=True)
        for name, text in (self.spec.get("links") or {}).items():
            os.makedirs(self.shared, exist_ok=True)
            target = os.path.join(self.shared, "real_" + name)
            with open(target, "w", newline="") as f:
                f.write(text)
            os.symlink(target, os.path.join(self.root, name))
        if self.root not in sys.path:
            sys.path.insert(0, self.root)
        self.out.emit({"boot": True, "hashseed": os.environ.get("PYTHONHASHSEED"), "files": sorted(self.spec["files"])})

    def texts(self):
        out = {}
        for dirpath, dirnames, filenames in os.walk(self.root):
            dirnames.sort()
            for fn in sorted(filenames):
                if fn.endswith(".py"):
                    full = os.path.join(dirpath, fn)
                    with open(full, newline="") as f:
                        out[os.path.relpath(full, self.root)] = f.read()
        return dict(sorted(out.items()))

    # ------------------------------------------------------------------ child side
    def child_main(self, rfd, wfd):
        r = os.fdopen(rfd, "r")
        w = os.fdopen(wfd, "w")
        visitor_cls = self.make_visitor_cls()
        for line in r:
            op = json.loads(line)
            try:
                res = self.child_op(visitor_cls, op)
            except SimCrash:
                w.write(json.dumps({"crashed": True, "sim": self.sim}) + "\n")
                w.flush()
                return
            except BaseException as e:
                res = {"raised": "".join(traceback.format_exception_only(type(e), e))[-600:].replace(self.root, "<T>"), "sim": self.sim}
            w.write(json.dumps(res) + "\n")
            w.flush()

    def make_visitor_cls(self):
        from pyanalyze.name_check_visitor import NameCheckVisitor

        world = self

        class SimVisitor(NameCheckVisitor):
            """Real NameCheckVisitor; the overrides only observe, rotate the proposed changes
            (alternative fix choice) and inject a crash between two file rewrites."""

            @classmethod
            def _run(cls, **kwargs):
                res = super()._run(**kwargs)
                world.sim["runs"] += 1
                world.sim["failures"] = world.render_failures(res)
                return res

            @classmethod
            def _run_and_apply_changes(cls, kwargs, autofix=False):
                world.sim["iterations"] += 1
                return super()._run_and_apply_changes(kwargs, autofix=autofix)

            @classmethod
            def _apply_changes(cls, changes):
                """Observe, and rotate each file's change list for the alternative-fix choice; the
                whole dict then goes to the real method in ONE call, exactly as main() would do it.
                The crash between two file rewrites is injected by the shadowed `open` below."""
                alt = world.sim.get("alt", 0)
                rotated = type(changes)() if not hasattr(changes, "default_factory") else type(changes)(changes.default_factory)
                for filename in list(changes):
                    changeset = list(changes[filename])
                    applicable = [i for i, c in enumerate(changeset) if c.lines_to_add is not None]
                    if alt and applicable:
                        k = applicable[alt % len(applicable)]
                        changeset = changeset[k:] + changeset[:k]
                        if k:
                            world.sim["alt_fired"] += 1
                    rec = {"file": world.rel(filename), "proposed": len(changeset), "applicable": len(applicable)}
                    if changeset:
                        c = changeset[0]
                        rec["first"] = {"del": sorted(c.linenos_to_delete), "add": c.lines_to_add, "error": str(c.error_str).replace(world.root, "<T>")}
                    world.sim["applied"].append(rec)
                    rotated[filename] = changeset
                world.sim["writes"] = 0
                super()._apply_changes(rotated)

        import builtins
        from pyanalyze import node_visitor as nv

        def sim_open(file, mode="r", *args, **kwargs):
            # the only `open` pyanalyze.node_visitor sees: counts the files opened for writing
            # during _apply_changes and kills the lifetime before the (k+1)-th is truncated
            if "w" in mode and isinstance(file, str) and file.startswith(world.root):
                crash_after = world.sim.get("crash_after")
                if crash_after is not None and world.sim.get("writes", 0) >= crash_after:
                    world.sim["crash_fired"] = True
                    raise SimCrash()
                world.sim["writes"] = world.sim.get("writes", 0) + 1
            return builtins.open(file, mode, *args, **kwargs)

        nv.open = sim_open
        return SimVisitor

    def rel(self, filename):
        filename = str(filename)
        if filename.startswith(self.root + os.sep):
            return os.path.relpath(filename, self.root)
        return os.path.basename(filename)

    def render_failures(self, failures):
        out = []
        for f in failures or []:
            code = f.get("code")
            out.append({
                "file": self.rel(str(f.get("filename", ""))),
                "line": f.get("lineno"),
                "col": f.get("col_offset"),
                "code": getattr(code, "name", None),
                "desc": str(f.get("description", "")).replace(self.root, "<T>")[:400],
            })
        return out

    def child_op(self, visitor_cls, op):
        kind = op["op"]
        self.sim = {"runs": 0, "iterations": 0, "applied": [], "alt_fired": 0, "failures": None,
                    "alt": op.get("alt", 0), "crash_after": op.get("crash_after")}
        argv = ["pyanalyze"]
        for code in op.get("enable", []):
            argv += ["-e", code]
        for code in op.get("disable", []):
            argv += ["-d", code]
        if kind == "probe":
            pass
        elif kind == "iter":
            argv.append("-A")
            if op["mode"] == "add_ignores":
                argv.append("--add-ignores")
        elif kind == "loop":
            argv.append("-r")
            if op["mode"] == "add_ignores":
                argv.append("--add-ignores")
        argv += list(op.get("extra_args", []))
        argv.append(op.get("target") or self.root)
        self.clock.reset()
        self.tokens.begin("c16")
        old = sys.argv
        sys.argv = argv
        rc = None
        try:
            try:
                rc = visitor_cls.main()
            except SystemExit as e:
                rc = "exit:%r" % (e.code,)
        finally:
            sys.argv = old
        return {"rc": rc, "sim": self.sim}

    # ------------------------------------------------------------------ parent side ops
    def ensure_lifetime(self):
        if self.lifetime is None or not self.lifetime.alive:
            self.lifetime = Lifetime(self)
            self.lifetimes += 1
        return self.lifetime

    def end_lifetime(self):
        if self.lifetime is not None:
            self.lifetime.close()
            self.lifetime = None

    def fresh_probe(self, enable, disable, target=None):
        lt = Lifetime(self)
        self.lifetimes += 1
        try:
            return lt.call({"op": "probe", "enable": enable, "disable": disable, "target": target, "extra_args": self.spec.get("extra_args", [])})
        finally:
            lt.close()

    def parse_status(self, texts):
        st = {}
        for name, text in texts.items():
            try:
                ast.parse(_nobom(text))
                compile(_nobom(text), "<c16-source>", "exec", dont_inherit=True)
                st[name] = True
            except SyntaxError as e:
                st[name] = "SyntaxError: %s (line %s)" % (e.msg, e.lineno)
            except ValueError as e:
                st[name] = "ValueError: %s" % e
        return st

    def do_s6(self, op):
        """Remove each ignore comment that the original tree did not have (own-line: delete the
        line; trailing: strip the comment), probe, restore."""
        original = dict(self.spec["files"])
        original.update(self.spec.get("links") or {})
        results = []
        self.s6_done = 0
        self.s6_seen = 0
        texts = self.texts()
        for name, text in texts.items():
            lines = pylines(text, True)
            orig_counts = {}
            for l in pylines(original.get(name, "")):
                if IGNORE in l:
                    orig_counts[l.strip()] = orig_counts.get(l.strip(), 0) + 1
            for i, line in enumerate(lines):
                if IGNORE not in line:
                    continue
                stripped = line.strip()
                if orig_counts.get(stripped, 0) > 0:
                    orig_counts[stripped] -= 1
                    continue
                # bounded: at most op["max"] comments per tree, chosen by a seeded stride
                self.s6_seen += 1
                if self.s6_done >= op.get("max", 6) or (self.s6_seen + op.get("phase", 0)) % op.get("stride", 1):
                    continue
                if stripped.startswith(IGNORE):
                    kind = "own_line"
                    variant = lines[:i] + lines[i + 1:]
                    j = i  # index (in the variant) of the line the comment applied to
                    while j < len(variant) and variant[j].strip().startswith(IGNORE):
                        j += 1
                    target_line = j + 1
                    comment = stripped
                else:
                    kind = "trailing"
                    pos = line.index(IGNORE)
                    comment = line[pos:].strip()
                    eol = line[len(line.rstrip("\r\n")):]
                    variant = lines[:i] + [line[:pos].rstrip() + eol] + lines[i + 1:]
                    target_line = i + 1
                path = os.path.join(self.root, name)
                with open(path, "w", newline="") as f:
                    f.write("".join(variant))
                try:
                    res = self.fresh_probe(op.get("enable", []), op.get("disable", []))
                finally:
                    with open(path, "w", newline="") as f:
                        f.write(text)
                self.s6_done += 1
                results.append({"file": name, "line": i + 1, "kind": kind, "comment": comment, "target_line": target_line,
                                "failures": (res.get("sim") or {}).get("failures"), "raised": res.get("raised")})
        return results

    def run(self):
        for i, op in enumerate(self.spec["ops"]):
            kind = op["op"]
            rec = {"i": i, "op": kind}
            for k in ("mode", "alt", "enable", "disable", "crash_after"):
                if k in op:
                    rec[k] = op[k]
            before = self.texts()
            if kind == "probe":
                rec["res"] = self.fresh_probe(op.get("enable", []), op.get("disable", []))
            elif kind in ("iter", "loop"):
                stale = self.lifetime is not None and self.lifetime.alive
                rec["stale_continuation"] = stale
                rec["res"] = self.ensure_lifetime().call(op)
                if rec["res"].get("crashed") or rec["res"].get("died"):
                    self.end_lifetime()
            elif kind == "restart":
                self.end_lifetime()
            elif kind == "s6":
                rec["res"] = self.do_s6(op)
            else:
                rec["error"] = "unknown op"
            after = self.texts()
            if after != before:
                rec["before"] = {k: v for k, v in before.items() if after.get(k) != v}
                rec["after"] = {k: v for k, v in after.items() if before.get(k) != v}
            rec["parse"] = self.parse_status(after)
            if self.spec.get("links"):
                rec["links"] = {name: os.path.islink(os.path.join(self.root, name)) for name in sorted(self.spec["links"])}
                rec["link_targets_in_sync"] = {name: self._target_in_sync(name, after) for name in sorted(self.spec["links"])}
            self.out.emit(rec)
        self.end_lifetime()
        self.out.emit({"final": self.texts(), "lifetimes": self.lifetimes})
        shutil.rmtree(self.root, ignore_errors=True)
        shutil.rmtree(self.shared, ignore_errors=True)

    def _target_in_sync(self, name, texts):
        try:
            with open(os.path.join(self.shared, "real_" + name), newline="") as f:
                return f.read() == texts.get(name)
        except OSError:
            return False


def main(spec, out):
    w = World(spec, out)
    w.boot()
    w.run()
