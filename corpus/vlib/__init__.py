"""vlib: a small frozen library that generated workload programs import.

It plays the role of an installed dependency shared by many unrelated files: it is never
checked itself, but its classes, protocols, overloads and evaluated functions are what the
cross-file caches of the Checker are keyed by.  Nothing here reads a clock, the environment or
randomness, and nothing mutates state at import beyond defining names.
"""
