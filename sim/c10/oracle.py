"""C10 oracle: equality of rendered observations between two worlds, at three levels.

content  - the multiset of (line, column, code, message) entries differs
order    - same multiset, different emission sequence
revealed - diagnostics equal, but str(inferred value) of some Name load differs (annotation
           channel; only a *lead*: confirmed through a real reveal_type() before it is reported)
"""
import ast
import collections
import json
import re

LEVELS = ["content", "order", "revealed"]

HELPERS = {
    "assert_is_value", "AsyncTaskIncompleteValue", "CallableValue", "DictIncompleteValue", "KVPair", "TypedDictEntry",
    "GenericValue", "KnownValue", "MultiValuedValue", "AnnotatedValue", "SequenceValue", "TypedValue", "UnboundMethodValue",
    "AnySource", "AnyValue", "UNRESOLVED_VALUE", "VariableNameValue", "ReferencingValue", "SubclassValue", "NewTypeValue",
    "TypedDictValue", "TypeVarValue", "dump_value", "make_simple_sequence", "UNINITIALIZED_VALUE", "NO_RETURN_VALUE",
}


def _norm_obs(o):
    if o is None:
        return None
    if "diags" in o:
        return o
    if "escaped" in o:
        return {"diags": [[0, 0, "<escaped>", o["escaped"]]], "ann": []}
    return o


def compare(a, b, use_ann=True):
    a, b = _norm_obs(a), _norm_obs(b)
    if a is None or b is None or "diags" not in a or "diags" not in b:
        if a == b:
            return None
        return {"level": "content", "where": [["<unusable>", None]], "detail": "a=%s b=%s" % (json.dumps(a)[:300], json.dumps(b)[:300])}
    da = [json.dumps(d) for d in a["diags"]]
    db = [json.dumps(d) for d in b["diags"]]
    if a.get("rc") != b.get("rc"):
        return {"level": "content", "where": [["<rc>", None]], "detail": "rc %r vs %r" % (a.get("rc"), b.get("rc"))}
    if da != db:
        ca, cb = collections.Counter(da), collections.Counter(db)
        if ca != cb:
            only_a = sorted((ca - cb).elements())
            only_b = sorted((cb - ca).elements())
            where = sorted({(json.loads(x)[0] or 0, json.loads(x)[2] or "") for x in only_a + only_b})
            detail = "only in baseline:\n%s\nonly in perturbed:\n%s" % (
                "\n".join(_short(x) for x in only_a[:6]), "\n".join(_short(x) for x in only_b[:6]))
            heads = sorted({_head(x) for x in only_a + only_b})
            return {"level": "content", "where": [list(w) for w in where], "detail": detail, "heads": heads}
        where = []
        for x, y in zip(da, db):
            if x != y:
                jx = json.loads(x)
                where.append([jx[0] or 0, jx[2] or ""])
        detail = "emission order:\n baseline:  %s\n perturbed: %s" % (
            [(json.loads(x)[0], json.loads(x)[2]) for x in da][:12], [(json.loads(x)[0], json.loads(x)[2]) for x in db][:12])
        return {"level": "order", "where": sorted({tuple(w) for w in where}) and [list(w) for w in sorted({tuple(w) for w in where})], "detail": detail}
    if use_ann and "ann" in a and "ann" in b and a["ann"] != b["ann"]:
        sa = {json.dumps(x) for x in a["ann"]}
        sb = {json.dumps(x) for x in b["ann"]}
        diff = sorted((json.loads(x) for x in sa ^ sb), key=lambda r: (r[0], r[1], r[2], r[3]))
        where = []
        for r in diff:
            w = [r[0], r[1], r[2]]
            if w not in where:
                where.append(w)
        detail = "\n".join("%s:%s %s -> %s" % (r[0], r[1], r[2], r[3][:160]) for r in diff[:8])
        return {"level": "revealed", "where": where, "detail": detail}
    return None


def _head(x):
    j = json.loads(x)
    msg = (j[3] or "").strip().split("\n")[0]
    return "%s: %s" % (j[2], msg[:200])


def diff_heads(d):
    return d.get("heads") or []


def _short(x):
    j = json.loads(x)
    msg = (j[3] or "").strip().split("\nIn ")[0]
    return "  line %s col %s %s: %s" % (j[0], j[1], j[2], msg[:400].replace("\n", " / "))


def brief(o):
    o = _norm_obs(o)
    if o is None or "diags" not in o:
        return o
    return {"diags": [[d[0], d[1], d[2], (d[3] or "").strip().split("\nIn ")[0][:600]] for d in o["diags"]]}


def bucket(n):
    if n == 0:
        return "0"
    if n < 4:
        return "1-3"
    if n < 32:
        return "4-31"
    if n < 256:
        return "32-255"
    return "256+"


def nontrivial(o):
    o = _norm_obs(o)
    if o is None or "diags" not in o:
        return False
    if len(o["diags"]) >= 2:
        return True
    for d in o["diags"]:
        m = d[3] or ""
        head = m.split("\nIn ")[0]
        if " | " in head or re.search(r"Literal\[[^\]]*,", head) or re.search(r"'\w+', '\w+'", head) or "Union[" in head:
            return True
    return False


def file_route_ok(code):
    try:
        tree = ast.parse(code)
    except SyntaxError:
        return False
    for node in ast.walk(tree):
        if isinstance(node, ast.Name) and node.id in HELPERS:
            return False
    return True


def target_obs(events, pid, index=None):
    """Observation of pid at operation `index` (default: the last operation on pid)."""
    found = None
    for e in events:
        if index is not None and e.get("i") != index:
            continue
        if e.get("op") in ("check", "recheck") and e.get("pid") == pid:
            found = e.get("obs")
        elif e.get("op") == "files" and isinstance(e.get("obs"), dict):
            f = e["obs"].get("files", {})
            if pid in f:
                found = f[pid]
    return _norm_obs(found)


# ---------------------------------------------------------------------------------------
# confirmation of annotation-channel leads

def wrap_reveal(code, line, col, name):
    """Return code with the Name load at (line, col) wrapped as reveal_type(name), or None when
    the position cannot take a call expression without changing what the program means."""
    try:
        tree = ast.parse(code)
    except SyntaxError:
        return None
    parents = {}
    for node in ast.walk(tree):
        for child in ast.iter_child_nodes(node):
            parents[child] = node
    target = None
    for node in ast.walk(tree):
        if isinstance(node, ast.Name) and isinstance(node.ctx, ast.Load) and node.lineno == line and node.col_offset == col and node.id == name:
            target = node
            break
    if target is None:
        return None
    in_function_body = False
    node = target
    while node in parents:
        parent = parents[node]
        if isinstance(parent, (ast.AnnAssign,)) and node is parent.annotation:
            return None
        if isinstance(parent, ast.arg):
            return None
        if isinstance(parent, (ast.FunctionDef, ast.AsyncFunctionDef)):
            if node in parent.body:
                in_function_body = True
            else:
                return None  # decorator, default, annotation
        if isinstance(parent, ast.arguments):
            return None
        if isinstance(parent, ast.ClassDef) and node not in parent.body:
            return None
        if type(parent).__name__.startswith("Match") and type(parent).__name__ != "Match":
            return None
        if isinstance(parent, ast.match_case) and node is parent.pattern:
            return None
        if isinstance(parent, ast.Lambda) and node is not parent.body:
            return None
        node = parent
    if not in_function_body:
        return None
    lines = code.split("\n")
    text = lines[line - 1]
    if not text.isascii() or text[col:col + len(name)] != name:
        return None
    lines[line - 1] = text[:col] + "reveal_type(" + name + ")" + text[col + len(name):]
    new = "\n".join(lines)
    try:
        ast.parse(new)
    except SyntaxError:
        return None
    return new


# ---------------------------------------------------------------------------------------
# program shrinking units

def split_units(code):
    try:
        tree = ast.parse(code)
    except SyntaxError:
        return [code]
    lines = code.split("\n")
    units = []
    prev_end = 0
    for stmt in tree.body:
        start = min([stmt.lineno] + [d.lineno for d in getattr(stmt, "decorator_list", [])]) - 1
        end = stmt.end_lineno
        units.append("\n".join(lines[prev_end:end]))
        prev_end = end
    if prev_end < len(lines):
        tail = "\n".join(lines[prev_end:])
        if tail.strip():
            units.append(tail)
    return units


def join_units(units):
    if not units:
        return None
    code = "\n".join(units).rstrip("\n") + "\n"
    try:
        ast.parse(code)
    except SyntaxError:
        return None
    return code
