"""SplitMix64 with labelled sub-streams.

Every random choice of the simulator is drawn from a stream derived from
(VERIF_SEED, label...) so that adding a new choice never shifts existing ones
and a replay is a pure function of the seed and the code.  Nothing here reads a
clock, os.urandom or Python's hash().
"""
import hashlib

MASK = (1 << 64) - 1


def _mix(z):
    z = (z + 0x9E3779B97F4A7C15) & MASK
    z = ((z ^ (z >> 30)) * 0xBF58476D1CE4E5B9) & MASK
    z = ((z ^ (z >> 27)) * 0x94D049BB133111EB) & MASK
    return z ^ (z >> 31)


def derive(seed, *labels):
    """Deterministic 64-bit sub-seed for (seed, labels); independent of PYTHONHASHSEED."""
    h = hashlib.sha256()
    h.update(str(int(seed)).encode())
    for lab in labels:
        h.update(b"\x00")
        h.update(str(lab).encode())
    return int.from_bytes(h.digest()[:8], "big")


class Rng:
    def __init__(self, seed, *labels):
        self.state = derive(seed, *labels) if labels else (int(seed) & MASK)

    def next(self):
        self.state = (self.state + 0x9E3779B97F4A7C15) & MASK
        z = self.state
        z = ((z ^ (z >> 30)) * 0xBF58476D1CE4E5B9) & MASK
        z = ((z ^ (z >> 27)) * 0x94D049BB133111EB) & MASK
        return z ^ (z >> 31)

    def below(self, n):
        if n <= 0:
            raise ValueError("below(%r)" % (n,))
        return self.next() % n

    def randint(self, lo, hi):
        return lo + self.below(hi - lo + 1)

    def random(self):
        return (self.next() >> 11) / float(1 << 53)

    def chance(self, p):
        return self.random() < p

    def choice(self, seq):
        return seq[self.below(len(seq))]

    def shuffle(self, lst):
        for i in range(len(lst) - 1, 0, -1):
            j = self.below(i + 1)
            lst[i], lst[j] = lst[j], lst[i]
        return lst

    def sample(self, seq, k):
        lst = list(seq)
        self.shuffle(lst)
        return lst[:k]

    def subset(self, seq, p):
        return [x for x in seq if self.chance(p)]
